#!/bin/bash
# runs every registered quick (or thorough) check and prints one line per property
tier=${1:-quick}
cd /verif
for id in C01 C02 C03 C04 C05 C06 C07 C08 C09 C10 C11 C12 C13 C14 C15 C16 C17 C18 C19 C20; do
  t0=$(date +%s)
  out=$(./hv check $id $tier 2>&1); rc=$?
  t1=$(date +%s)
  nv=$(echo "$out" | grep -c '^VIOLATION')
  echo "$id exit=$rc violations=$nv wall=$((t1-t0))s  $(echo "$out" | grep -E '^  signature=' | head -2 | cut -c1-160 | tr '\n' '|')"
done
