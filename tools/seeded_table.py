#!/usr/bin/env python3
"""Renders the table of seeded changes (from seeded/*/meta.json and seeded/SWEEP.json) into DESIGN.md."""
import glob, json, os, re
rows=[]
sweep=json.load(open('/verif/seeded/SWEEP.json')) if os.path.exists('/verif/seeded/SWEEP.json') else {}
for f in sorted(glob.glob('/verif/seeded/*/meta.json')):
    m=json.load(open(f)); sid=m.get('seed_id',m['property']); key=f"{sid}-{m['variant']}"
    r=sweep.get(key) or {}
    caught=[c for c,x in r.items() if x.get('exit')==1]
    rows.append((key, m['property'], m['needs_to_manifest'], ", ".join(caught) if caught else ("(sweep pending)" if not r else "**missed**"), m.get('notes','')))
out=["<!-- SEEDED-TABLE-BEGIN -->", "", f"{len(rows)} confirmed seeded changes; `tools/seed.py sweep` re-applies each to /repo, runs the listed quick checks and undoes it (results in `seeded/SWEEP.json`).", "",
     "| Seed | Property | What it needs in order to manifest | Reported by (quick tier) |", "|---|---|---|---|"]
for k,p,n,c,_ in rows:
    out.append(f"| {k} | {p} | {n} | {c} |")
out+=["", "<!-- SEEDED-TABLE-END -->"]
d=open('/verif/DESIGN.md').read()
block="\n".join(out)
if "<!-- SEEDED-TABLE-BEGIN -->" in d:
    d=re.sub(r"<!-- SEEDED-TABLE-BEGIN -->.*<!-- SEEDED-TABLE-END -->", lambda m: block, d, flags=re.S)
else:
    d=d.rstrip("\n")+"\n\n"+block+"\n"
open('/verif/DESIGN.md','w').write(d)
print(len(rows),"rows")
