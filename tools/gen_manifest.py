#!/usr/bin/env python3
"""Regenerates /verif/MANIFEST.json from the table below and validates it."""
import json, os, subprocess, sys
ROOT = os.path.dirname(os.path.dirname(os.path.abspath(__file__)))

# id -> (engine, technique, level text, level note, design_ref)
CHECKS = {
 "C05": ("E2-enum", "bounded-exhaustive enumeration of (pattern,text) pairs against a DP reference matcher",
         "All 1093 patterns of length <=6 over {*,a,b} x all 511 texts of length <=8 over {a,b} (and the same with a 2-byte and a 4-byte character, texts containing `*`, and host-shaped self-overlapping families) are run through the real wildcard_match; any misclassified pair is a counter-example. Exhaustive within the stated alphabet/length bounds, which contain every shape of backtracking the algorithm has (leading/trailing/adjacent stars, repeated literals).",
         "Trusted: the 12-line DP reference matcher in checks/src/props/c05.rs. Nothing about longer strings or other alphabets is claimed beyond the bounds in the evidence file.",
         "DESIGN.md §3 C05"),
 "C13": ("E2-enum", "bounded-exhaustive enumeration of token strings / number-like strings / escape forms / value trees against an RFC 8259 reference recogniser-evaluator",
         "Every concatenation of <=5 (thorough 6) tokens of a 16-token JSON alphabet (plus substitution passes), every number-like string of length <=6 (8) over {+,-,.,0,1,9,e,E}, every single-character escape and a boundary set of \\u escapes incl. all surrogate pair classes and non-hex characters in each position, nesting at 255/256/257 and exhaustive bracket strings under small depth limits, whitespace insertion and single-edit mutants of 20 seed documents, and every Value tree of <=4 (5) nodes over 31 leaves x 10 indent settings is run through the real parser/serialiser; acceptance must equal the reference recogniser's, the parsed value the reference value (members in document order), and parse(serialize(v)) must equal v with the text itself accepted by the reference.",
         "Trusted: the reference recogniser in checks/src/refs/json.rs and std's f64 parsing for grammar-valid numbers. Escapes denoting unpaired surrogates are allowed either way, as the property states. Strings outside the enumerated alphabets/lengths are not covered.",
         "DESIGN.md §3 C13"),
 "C08": ("E1-sched", "stateless DFS over all thread schedules of the real ThreadPool under a controlled scheduler, preemption-bounded",
         "For ~90 lifecycle scripts over {start, execute(ok|panic|rendezvous)*, stop, drop} with N in 1..3 workers and up to 3 (thorough 4) tasks, every subset of panicking tasks, every schedule of submitter, workers and recovery thread with at most 1-3 preemptions (per-script bound in the evidence) is executed on the real pool code running on real OS threads with the real std Mutex/mpsc/thread behind a scheduling facade. Each complete schedule is checked: every task started exactly once and finished; the caller returned from stop/drop (deadlock = no enabled thread while the caller is blocked); at quiescence every worker thread has exited (only the detached recovery thread may remain); N rendezvous tasks complete only if N really run concurrently, also after a panic.",
         "Trusted: the facade's enabledness mirror (a mirror mistake makes a real primitive block, which surfaces as a machinery error, not a verdict) and that scheduling points at sync operations suffice (no unsafe, no other shared state in the pool). Schedules with more preemptions than the completed bound are not covered; sampling beyond the bound is deliberately not done.",
         "DESIGN.md §3 C08"),
 "C10": ("E2-enum", "bounded-exhaustive enumeration of frames x read-segmentation plans against a reference RFC 6455 encoder",
         "Every frame of FIN x 8 RSV combinations x 6 opcodes x {unmasked, 4 (7) masking keys} x 11 (19) payload-length classes around 125/126, 65535/65536 (reduced header product above 1 KiB) is encoded by the real encoder through a guarded wrapper, compared byte-for-byte with a reference encoder (shortest length form, masked payload), and decoded by the real decoder under every read plan: whole, byte-by-byte, every single cut in the first 16 and last 2 bytes (thorough: every pair). All 65,536 two-byte headers are completed, cut one byte short and cut after the header; reserved opcodes must give InvalidOpcode, truncations ReadError. Message::to_frame is compared with the reference for every length class.",
         "Trusted: reference encoder (25 lines). Payload contents are one position-dependent pattern per length, not all byte strings. 64-bit lengths that exceed memory belong to C03.",
         "DESIGN.md §3 C10"),
 "C18": ("E2-enum", "exhaustive enumeration of the primitives' input domains against independent references cross-checked with CPython",
         "SHA-1 on every length 0..1100 x 3 contents and 2^k-1/2^k/2^k+1 up to 64 KiB (1 MiB); Base64 on all 2^24+2^16+2^8 inputs of <=3 bytes (encode = reference, decode(encode(x)) = x), decode of every 4-symbol group over the alphabet plus '=' plus an illegal symbol (66^4), odd lengths and misplaced padding; percent-encoding of every byte and byte pair with round trip, decode of every string of <=5 (6) symbols over {%,0,9,a,F,g,+,SP,e-acute}; HTTP dates for every day from 1970-01-01 to 9999-12-31 at 00:00:00 and 23:59:59 and every second of 7 boundary days. Any disagreement with the reference is a counter-example.",
         "Trusted: the reference SHA-1/Base64/percent/civil-date code in checks/src/props/c18.rs, itself compared with CPython's hashlib/base64/urllib.parse/email.utils on ~700 cases at the start of every run (disagreement = machinery error). Non-canonical Base64 pad bits may be accepted or rejected.",
         "DESIGN.md §3 C18"),
 "C11": ("E2-enum", "bounded-exhaustive enumeration of client frame scripts x delivery plans x handler endings against a reference RFC 6455 endpoint",
         "Every RFC-valid client script of <=4 (5) frames over {text/binary/continuation with and without FIN, ping with 3 payloads, pong, close with and without status} x data payload classes {0,1,126 (,70 KiB)} is delivered to the real websocket_handler/WebsocketStream over a scripted socket under every delivery plan (one segment, byte-by-byte, every cut in the first 14 bytes, at and just after every frame boundary, one segment per frame) and every ending (client Close, client vanishes, server drops the stream after k messages). The non-blocking receive is run with every placement of <=1 (2) `not yet` answers and every split of one frame after its 1st/2nd/3rd/5th byte. Compared with a reference endpoint: messages = fragments concatenated with the first fragment's type; every byte written after the 101 parses as unmasked well-formed frames; one Pong per Ping with equal payload in order; Close answered by Close and reported as closed; exactly one Close on drop unless already closed; `nothing yet` only when the read that gave up found no data. Handshake: 101 with the exact Sec-WebSocket-Accept for 6 key shapes, no upgrade without a key.",
         "Trusted: reference endpoint and strict frame parser in checks/src/props/c11.rs, scripted socket in the facade (a read returns at most the current segment). A vanished client is not detected by non-blocking receive (documented limitation), so no read error is expected there.",
         "DESIGN.md §3 C11"),
 "C12": ("E1-sched", "stateless DFS over schedules of the real AsyncWebsocketApp on simulated sockets and a virtual clock, deviation-bounded, with enumerated pacing vectors",
         "The real AsyncWebsocketApp::run loop, its handler ThreadPool and real WebsocketStreams run on simulated socket pairs under the controlled scheduler with virtual time. Scenarios: every 1-client script of Connect + <=2 steps over {text, two messages in one write, fragmented binary, ping, broadcast-triggering text} with/without Close; 2 (3) clients with every order-preserving merge of script pairs including external unicast/broadcast from an AsyncSender; heartbeat scenarios with silent, vanishing and closing clients; handler pools of 1 and 2 threads. Every pacing vector (0/1/2 poll intervals before each environment step; all 3^k under the default scheduler) and every execution within d deviations (each pacing entry != 1 and each non-default scheduling choice costs 1; d = 1-2 quick, 2-3 thorough, per family in the evidence) is run to completion and checked: exactly one connect before any message, each message dispatched exactly once in per-client order (dispatch order = dequeue order), exactly one disconnect per closed/timed-out client and nothing after it, unicasts only at their addressee and none lost for a client that stays, broadcasts at most once per client and present/absent where pacing makes membership unambiguous, Pings answered, one Close, all server bytes well-formed frames, run() returns after the shutdown signal.",
         "Trusted: facade mirror + simulated socket semantics (buffered, in-order, EOF after close) + virtual clock (time advances only when no thread is enabled; simultaneous timers become concurrently enabled and are interleaved by the explorer). poll_interval None is not explored (cyclic schedule space). Heartbeat pings are never answered by the simulated clients. Executions more than d deviations away from the default schedule are not covered.",
         "DESIGN.md §3 C12"),
 "C20": ("E1-sched", "stateless DFS over schedules of the real App::run accept loop + pool + connection handlers on a simulated listener, deviation-bounded",
         "The real App::run (threaded runtime) with a shutdown receiver runs on a simulated TcpListener under the controlled scheduler: 0, 1 or 2 (thorough 3) client connections, each in one of 7 states (just connected, half a request sent, short request, keep-alive idle, handler that never returns, open WebSocket, two requests on one connection), all unordered pairs, pools of 1 and 2 workers incl. fully occupied pools, bind addresses 127.0.0.1, 0.0.0.0 and [::] (wake-up address mapping). The signal thread and the clients run concurrently with the server, so the explorer places the signal before the first connect, between accepts, between accept and dispatch and while responses are being written; every execution within 3 (4) deviations of the default scheduler for 0-1 connections and 1-2 (3) for pairs is run. Checked on each: run() returns Ok (a blocked caller with nothing enabled = deadlock), the address can be bound again immediately, everything the server wrote on a connection is a whole number of complete responses (nothing truncated), accepted servable connections are answered, unaccepted ones get nothing.",
         "Trusted: facade mirror and simulated listener/backlog/connect semantics. The tokio runtime is NOT covered by this check (its scheduler and tokio::net cannot be controlled with what is installed; see DESIGN.md §4). Promptness is decided in virtual time: run() returns without any timer firing.",
         "DESIGN.md §3 C20"),
 "C02": ("E2-enum", "generator-as-oracle enumeration of structured requests x read-segmentation plans",
         "Structured requests from the bounded grammar (5 methods x 6 targets x 5 query shapes x 2 versions; all header sequences of length <=2 over 6 names (3 case variants of one name) x 8 values x 4 OWS forms and length <=3 (4) over a 12-pair sub-menu; 20/21/32/33/34/40(/64)-field sets with the second name on every contiguous run and residue class; Cookie lists of 0..3 pairs x 3 separators; X-Forwarded-For lists of 1..3 v4/v6 addresses with ',' and ', '; bodies of 0..65536 bytes at the BufReader capacity boundaries with the body start padded onto 8190..8193) are rendered to bytes and parsed by the real Request::from_stream under every read plan (whole, byte-by-byte, every single cut, pairs in thorough; structural boundaries for long requests). The generating structure is the expected result, compared through the public API (per-name value sequences under three spellings, get/get_all, cookies, origin/proxies/port, body). Each parsed request is serialised and parsed again and must be equal up to the order of differently-named fields.",
         "Trusted: the request renderer (30 lines). Only the threaded parser; values with trailing whitespace and multiple Cookie fields are outside the property. Body contents: one adversarial pattern (CR, LF, NUL, 0xFF) per length.",
         "DESIGN.md §3 C02"),
 "C07": ("E2-enum", "bounded-exhaustive enumeration of responses, chunkings, read plans and redirect chains against a strict HTTP grammar and the generating structure",
         "(a) Responses built through the public API over all modelled status codes x header lists of size 0..2 (3) incl. repeated names, all 256 Set-Cookie attribute combinations and 33/40-field sets x bodies {0,1,5,8192(,65536)} are serialised, checked against RFC 7230 syntax (status line with a registered reason phrase in RFC 2616/7231/9110 wording, one line per field, blank line, body) and parsed back. (b) Wire responses for every status x {Content-Length, chunked under every composition of bodies <=6 bytes into chunks, lower/upper-case hex sizes, a 200-byte body in 10..16-byte chunks} are parsed under every read plan (whole, bytewise, every single cut; pairs in thorough) and must return exactly status, headers and payload (chunked reported as plain body + Content-Length). (c) The real Client follows every redirect chain of length 0..3 (4) over {301,302,307} x {relative, absolute Location} against a scripted server on 127.0.0.1:80 and must end at the final response having issued exactly the chain's requests.",
         "Trusted: strict head parser and chunk renderer in the check. (c) uses real loopback TCP because the client is not routed through the facade (needs to bind port 80; skipped with a recorded cap if that fails). Known finding: the CRLF appended after non-empty bodies (pinned by the repository's tests).",
         "DESIGN.md §3 C07"),
 "C03": ("E2-enum", "bounded-exhaustive enumeration of byte strings, truncations and single-edit mutants, run in isolated worker processes under a counting allocator",
         "For each of the six parsers (HTTP request, HTTP response, WebSocket frame, WebSocket message via recv and recv_nonblocking, JSON, configuration): every string of <=5 (6) symbols over a 10-18 symbol protocol alphabet (~1.1*10^5 (1.1*10^6) each, config strings also inside a `server {` section and in value position), every prefix of every seed message, every single-edit mutant of every seed (delete, duplicate, replace by each alphabet symbol), a 2-byte character, a 4-byte character and invalid UTF-8 inserted at every position, every length field (Content-Length, chunk size, 16/64-bit frame lengths) replaced by boundary and huge values, nesting to 100000 levels, 2000 header lines, 200 KB lines; each delivered whole and byte-by-byte. Oracle per case: the call returns (panic caught and classified by source file), the worker process survives (abort, SIGSEGV/stack overflow, exit by the allocator cap and a 20 s no-progress watchdog are attributed to the exact case through a shared progress record and the worker is restarted after it), at most 100000 reads at end of input, and peak live allocation <= 64*|input| + 1 MiB.",
         "Trusted: counting GlobalAlloc wrapper (single allocation above 16x the bound ends the worker with exit 77 instead of being attempted). JSON and config parsers take &str so non-UTF-8 input cannot reach them. Random byte strings are deliberately not used (sampling).",
         "DESIGN.md §3 C03"),
 "C01": ("E2-enum", "bounded-exhaustive enumeration of request sequences x segmentation plans x timeout placements against a reference server, plus scheduler exploration for panic isolation",
         "The real connection handler (client_handler, obtained from the App exactly as run() hands it to the pool) serves a scripted socket. Enumerated: every single request of methods {GET,POST,PUT,DELETE,OPTIONS} x targets {routed, unrouted, CORS route, body echo, empty body, panicking} x Connection {keep-alive in 3 spellings, close, absent, list} x {HTTP/1.0, 1.1}, Content-Length bodies of 0/1/5 bytes, 8 malformed shapes (start line, header, length); all 29 x 41 ordered pairs (triples in thorough). Plans: everything in one segment, one segment per request, byte-by-byte, every single cut (all positions for singles, around every structural boundary for pairs; pairs of cuts in thorough), and with a connection timeout configured the client going silent before each request. A strict response-stream reader and a reference server decide: one response per request in order, request's version, Date in IMF-fixdate syntax, Server, the matched route's CORS headers and no others, body = handler output with exact Content-Length, every response after which the connection stays open self-delimiting, 400-then-close for malformed, 408-then-close on timeout, no response and propagated panic for the panicking handler, handler log = request list. A scheduler-explored scenario (3 connections, one to the panicking route, deviation bound 1 (2)) checks that the other connections are served normally.",
         "Trusted: reference server model and strict reader in checks/src/props/c01.rs; scripted socket semantics (a read returns at most the current segment). Only the threaded runtime. Known findings: stray CRLF after bodies (pinned by tests), requests coalesced into one segment (read-ahead discarded).",
         "DESIGN.md §3 C01"),
 "C04": ("E2-enum", "exhaustive enumeration of bounded routing configurations x requests against a reference router",
         "Every application of the family {default application with every ordered route list of length <=2 (3) over 10 patterns; one host sub-app from 4 host patterns x route lists <=2 x default route lists <=2 over 5 patterns; every ordered pair of host sub-apps x route lists <=2 x default lists <=1 (2); in thorough every ordered triple of hosts} is built through the public API (with_host / with_route / with_websocket_route / with_default_subapp), so shadowing and overlap arise by construction. Each is asked, through the real connection handler over a scripted socket, for every request of Host {absent, exact, wildcard-matching, with port, non-matching} x 8 targets (with/without query, queries that contain other routes) x {plain, WebSocket upgrade} plus decoy headers. Every handler answers with its (host index, route index); the answer must equal the reference router's choice (first matching host, first matching route there, else first matching default route, else 404 / closed without upgrade), with `matches` the DP glob reference of C05.",
         "Trusted: reference router (15 lines) and the C05 glob reference. Threaded runtime only. Host patterns are matched against the raw Host header value.",
         "DESIGN.md §3 C04"),
 "C09": ("E1-sched", "fault enumeration of scripted upstream behaviours on the simulated network with a virtual clock + stateless DFS over schedules for concurrent target selection",
         "The real proxy_request runs against scripted upstreams on the simulated network under the controlled runtime (virtual time): every modelled status with Content-Length, chunked bodies in every composition, close-delimited, each valid response delivered in two writes at every split point, each of the 200/404/HTTP-1.0 responses cut at every byte offset followed by close or by silence, 12 garbage responses (non-HTTP, header without colon, LF-only, non-UTF-8, bad lengths, bad chunk size) followed by close or silence, connection refused, black-holed connect, accept-then-close, accept-then-silence, silence after the request, one byte per 50 ms; client requests from the C02 grammar. Oracle: the call returns (no panic, no deadlock) no later than timeout + 1 s on the virtual clock; valid upstream => exactly its status/headers/body, anything else => 502; the upstream received the client's request (C02 equality) plus one X-Forwarded-For. proxy_handler is run for prefix/blacklist/mode combinations (prefix stripped, 403 for a listed origin without touching the upstream). Round-robin: 1..3 caller threads x 2 calls against 1..3 (4) targets, every schedule within 2 (3) deviations: per-target grant counts must equal the strict rotation.",
         "Trusted: facade network/time simulation (virtual time only advances when every thread is blocked). The added X-Forwarded-For may carry the TCP peer or the origin the client named. Random balancer mode only held to `a configured target answered`. Known findings: close-delimited upstream bodies dropped; per-read (not whole-exchange) timeout under a trickling upstream.",
         "DESIGN.md §3 C09"),
}
NOT_YET = {}

def main():
    props = [json.loads(l) for l in open(os.path.join(ROOT, "properties.jsonl"))]
    hooks_commits = []
    hc = os.path.join(ROOT, "tools", "hook_commits.txt")
    if os.path.exists(hc):
        hooks_commits = [l.split()[0] for l in open(hc) if l.strip() and not l.startswith("#")]
    checks = []
    na = []
    for p in props:
        pid = p["id"]
        if pid in CHECKS:
            eng, tech, text, note, ref = CHECKS[pid]
            checks.append({
                "property_id": pid,
                "quick_cmd": f"./hv check {pid} quick",
                "thorough_cmd": f"./hv check {pid} thorough",
                "evidence_file": f"/verif/evidence/{pid}.json",
                "replay_cmd_template": "./hv replay {path}",
                "engine": eng,
                "level_claimed": {"category": "model_checking", "text": text, "design_ref": ref},
                "level_note": note,
                "technique": tech,
            })
        else:
            na.append({"property_id": pid, "reason": NOT_YET.get(pid, "check not built yet in this round (work in progress; see DESIGN.md §3 for the planned model-checking harness)")})
    m = {
        "version": 1,
        "setup_cmd": "./hv setup",
        "hooks": {
            "guard": "humphrey_verif",
            "enable": "RUSTFLAGS=\"--cfg humphrey_verif\" (set by ./hv for every build of /verif/checks, which depends on /repo's crates by path; separate CARGO_TARGET_DIR /verif/.target)",
            "baseline_off_cmd": "cd /repo && cargo test --workspace --no-fail-fast --offline",
            "source_commits": hooks_commits,
            "add_only": True,
        },
        "engines": [
            {"name": "E1-sched", "path": "/verif/checks/src/sched", "serves_properties": ["C08", "C12", "C20", "C09", "C16", "C01"],
             "kind_free_text": "controlled scheduler over real OS threads (hooked std::sync/thread/net/time in /repo behind cfg humphrey_verif) + stateless DFS over schedules with preemption / deviation bound"},
            {"name": "E2-enum", "path": "/verif/checks/src", "serves_properties": ["C01", "C02", "C03", "C04", "C05", "C06", "C07", "C09", "C10", "C11", "C13", "C14", "C15", "C18", "C19"],
             "kind_free_text": "bounded-exhaustive enumeration of inputs x environment-answer plans (read cuts, pending polls, timeouts, EOF) driving the real functions against reference models"},
            {"name": "E3-bfs", "path": "/verif/checks/src", "serves_properties": ["C16", "C17"],
             "kind_free_text": "explicit-state breadth-first search over operation histories of the real objects with canonical-state deduplication and a reference model"},
        ],
        "checks": checks,
        "not_applicable": na,
        "notes": "All checks are exhaustive bounded explorations of the real code (no sampling, no solver). See DESIGN.md. known_findings.json lists recorded and fixed defects.",
    }
    out = os.path.join(ROOT, "MANIFEST.json")
    json.dump(m, open(out, "w"), indent=1)
    try:
        import jsonschema
        jsonschema.validate(m, json.load(open("/root/.vp/MANIFEST.schema.json")))
        print("MANIFEST.json valid;", len(checks), "checks,", len(na), "not claimed")
    except ImportError:
        print("jsonschema not importable here; wrote MANIFEST.json unvalidated")

if __name__ == "__main__":
    main()
