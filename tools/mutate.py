#!/usr/bin/env python3
"""Mechanical mutation sweep (evaluation aid, not a registered check).

Generates single-token mutants of the source files the properties are anchored in, applies each to a private
copy of /repo + /verif under /scratch/mut/w<k>, and runs the quick checks of the properties anchored in that
file. A mutant is `killed` if one of them exits 1, `survived` if all exit 0, `nocompile` if the build fails,
`machinery` for any other exit. Survivors are then run against the repository's own tests of that crate
(guard off): a survivor the suite kills is not a change "that passes the existing tests".

  mutate.py gen                      -> /scratch/mut/mutants.json
  mutate.py run [workers] [filter]   -> /scratch/mut/results.jsonl (resumable)
  mutate.py report                   -> summary + survivors
"""
import json, os, re, subprocess, sys, shutil, time, hashlib
from concurrent.futures import ThreadPoolExecutor

ROOT = "/scratch/mut"
SKIP_FILES = ("verif.rs",)

def anchors():
    m = {}
    for l in open("/verif/properties.jsonl"):
        p = json.loads(l)
        for f in p["anchors"]["files"]:
            m.setdefault(f, set()).add(p["id"])
    # the tokio runtime files replace app/handlers/stream wholesale; their twins exist for these properties
    m.setdefault("humphrey/src/tokio/app.rs", set()).update({"C01", "C04", "C20"})
    m.setdefault("humphrey/src/tokio/handlers.rs", set()).update({"C06"})
    m.setdefault("humphrey/src/handlers.rs", set()).update({"C06"})
    m.setdefault("humphrey/src/http/request.rs", set()).update({"C01", "C02", "C03"})
    m.setdefault("humphrey/src/http/response.rs", set()).update({"C07", "C09", "C03", "C01"})
    return {f: sorted(v) for f, v in m.items()}

OPS = [
    (r" <= ", " < "), (r" < ", " <= "), (r" >= ", " > "), (r" > ", " >= "),
    (r" == ", " != "), (r" != ", " == "),
    (r" && ", " || "), (r" \|\| ", " && "),
    (r" \+ 1\b", " + 2"), (r" - 1\b", " - 0"), (r" \+ ", " - "), (r" - ", " + "),
    (r"\btrue\b", "false"), (r"\bfalse\b", "true"),
    (r"\bif !", "if "), (r"\.is_some\(\)", ".is_none()"), (r"\.is_none\(\)", ".is_some()"),
    (r"\.is_ok\(\)", ".is_err()"), (r"\.is_err\(\)", ".is_ok()"),
    (r"\.is_empty\(\)", ".len() == 1"),
    (r"\bbreak;", "continue;"),
    (r"\.min\(", ".max("), (r"\.max\(", ".min("),
    (r"\.starts_with\(", ".ends_with("), (r"\.ends_with\(", ".starts_with("),
    (r"\.trim_start\(\)", ".trim_end()"), (r"\.trim\(\)", ""),
    (r"\.first\(\)", ".last()"), (r"\.last\(\)", ".first()"),
    (r"\.any\(", ".all("), (r"\.all\(", ".any("),
    (r"\.saturating_sub\(", ".saturating_add("),
    (r"\.unwrap_or\(true\)", ".unwrap_or(false)"), (r"\.unwrap_or\(false\)", ".unwrap_or(true)"),
]
NUM = re.compile(r"(?<![\w.\"'#])(\d{1,5})(?![\w.\"'])")

def in_code(line):
    t = line.strip()
    return t and not t.startswith("//") and not t.startswith("#[") and not t.startswith("///") and not t.startswith("//!")

def gen():
    out = []
    for f, props in sorted(anchors().items()):
        path = os.path.join("/repo", f)
        if not os.path.exists(path) or f.endswith(SKIP_FILES) or "/tests/" in f:
            continue
        lines = open(path).read().split("\n")
        guarded_next = False
        in_test = False
        depth_cfg_tokio = None
        for i, line in enumerate(lines):
            if "#[cfg(test)]" in line:
                nxt = lines[i + 1].strip() if i + 1 < len(lines) else ""
                if nxt.startswith("mod ") and nxt.endswith(";"):
                    guarded_next = True  # `#[cfg(test)] mod tests;` — only that line is test code
                    continue
                in_test = True
            if in_test:
                continue
            if "cfg(humphrey_verif)" in line and "not(" not in line:
                guarded_next = True
                continue
            if guarded_next:
                guarded_next = False
                continue
            if not in_code(line):
                continue
            code = line.split("//")[0] if '"' not in line else line
            for pat, rep in OPS:
                for m in re.finditer(pat, code):
                    # skip generics / arrows / shifts / turbofish-like contexts
                    ctx = code[max(0, m.start() - 2): m.end() + 2]
                    if "->" in ctx or "=>" in ctx or "<<" in ctx or ">>" in ctx:
                        continue
                    new = code[:m.start()] + re.sub(pat, rep, m.group(0)) + code[m.end():]
                    if new != line:
                        out.append({"file": f, "line": i + 1, "op": f"{pat.strip()} -> {rep.strip()}", "old": line, "new": new, "props": props})
            # statement deletion: a single-line call / assignment statement
            t = code.strip()
            if re.match(r"^[a-z_][\w\.]*(\(|\.[a-z_]\w*\(| [-+*]?= ).*;$", t) and not re.match(r"^(let|return|break|continue|use|pub|mod|type|const|static|panic|unreachable|assert)\b", t):
                out.append({"file": f, "line": i + 1, "op": "delete statement", "old": line, "new": line[: len(line) - len(line.lstrip())] + ";", "props": props})
            if '"' not in code:
                for m in NUM.finditer(code):
                    n = int(m.group(1))
                    for nn in ({n + 1, max(n - 1, 0)} - {n}):
                        new = code[:m.start(1)] + str(nn) + code[m.end(1):]
                        out.append({"file": f, "line": i + 1, "op": f"{n} -> {nn}", "old": line, "new": new, "props": props})
    for k, mu in enumerate(out):
        mu["id"] = hashlib.sha1(f"{mu['file']}:{mu['line']}:{mu['op']}:{mu['new']}".encode()).hexdigest()[:10]
    os.makedirs(ROOT, exist_ok=True)
    json.dump(out, open(f"{ROOT}/mutants.json", "w"), indent=0)
    by = {}
    for mu in out:
        by[mu["file"]] = by.get(mu["file"], 0) + 1
    for f, n in sorted(by.items()):
        print(f"{n:5d} {f}")
    print(len(out), "mutants")

def sh(cmd, cwd=None, env=None, timeout=1800):
    import signal
    e = dict(os.environ); e["CARGO_NET_OFFLINE"] = "true"
    if env: e.update(env)
    p = subprocess.Popen(cmd, shell=True, cwd=cwd, env=e, stdout=subprocess.PIPE, stderr=subprocess.STDOUT, text=True, start_new_session=True)
    try:
        out, _ = p.communicate(timeout=timeout)
        return p.returncode, out
    except subprocess.TimeoutExpired:
        # kill the whole process group: the check and its worker / twin processes must not linger
        try: os.killpg(p.pid, signal.SIGKILL)
        except Exception: pass
        p.wait()
        return 124, "timeout"

def setup_worker(k):
    w = f"{ROOT}/w{k}"
    if os.path.exists(w + "/ready"):
        # refresh sources (keep target dirs)
        pass
    os.makedirs(w, exist_ok=True)
    sh(f"rsync -a --delete --exclude target --exclude .git /repo/ {w}/repo/")
    sh(f"rsync -a --delete --exclude .target --exclude .target-tokio --exclude .target-repo --exclude evidence --exclude replays --exclude seeded --exclude .git /verif/ {w}/verif/")
    os.makedirs(f"{w}/verif/evidence", exist_ok=True)
    for f in [f"{w}/verif/checks/Cargo.toml", f"{w}/verif/checks-tokio/Cargo.toml", f"{w}/verif/checks/src/props/c14.rs"]:
        s = open(f).read().replace('"/repo/', f'"{w}/repo/').replace('\\"/repo/', f'\\"{w}/repo/')
        open(f, "w").write(s)
    rc, out = sh("./hv setup", cwd=f"{w}/verif", env={"HV_REPO": f"{w}/repo"}, timeout=3600)
    if rc != 0:
        print("worker setup failed", k, out[-2000:]); sys.exit(2)
    open(w + "/ready", "w").write("ok")
    return w

CRATE_OF = lambda f: f.split("/")[0]
PKG = {"humphrey": "humphrey", "humphrey-ws": "humphrey_ws", "humphrey-json": "humphrey_json", "humphrey-server": "humphrey_server", "humphrey-auth": "humphrey_auth", "humphrey-json-derive": "humphrey_json_derive"}

def run_one(w, mu):
    path = f"{w}/repo/{mu['file']}"
    src = open(path).read()
    lines = src.split("\n")
    if lines[mu["line"] - 1] != mu["old"]:
        return {"id": mu["id"], "status": "stale"}
    lines[mu["line"] - 1] = mu["new"]
    open(path, "w").write("\n".join(lines))
    res = {"id": mu["id"], "file": mu["file"], "line": mu["line"], "op": mu["op"], "checks": {}}
    t0 = time.time()
    try:
        status = "survived"
        for c in mu["props"]:
            rc, out = sh(f"./hv check {c} quick", cwd=f"{w}/verif", env={"HV_REPO": f"{w}/repo"}, timeout=900)
            res["checks"][c] = rc
            if rc == 1:
                sig = [l.strip()[:200] for l in out.splitlines() if l.strip().startswith("signature=")][:1]
                res["sig"] = sig
                status = "killed"
                break
            if rc == 2 and "MACHINERY build" in out:
                status = "nocompile"
                break
            if rc != 0:
                status = "machinery"
                res["tail"] = out[-400:]
                break
        if status == "survived":
            crate = CRATE_OF(mu["file"])
            feat = " --features tokio" if "/tokio/" in mu["file"] else ""
            rc, out = sh(f"cargo test -p {PKG[crate]}{feat} --offline --no-fail-fast 2>&1 | grep -E '^test .*FAILED|^error' | grep -v test_url_parser | head -5", cwd=f"{w}/repo", env={"CARGO_TARGET_DIR": f"{w}/repo-target"}, timeout=900)
            if out.strip():
                status = "killed-by-suite"
                res["suite"] = out.strip()[:300]
        res["status"] = status
    finally:
        open(path, "w").write(src)
    res["secs"] = round(time.time() - t0)
    return res

def run(workers, flt):
    muts = json.load(open(f"{ROOT}/mutants.json"))
    if flt:
        muts = [m for m in muts if re.search(flt, m["file"])]
    done = set()
    rp = f"{ROOT}/results.jsonl"
    if os.path.exists(rp):
        for l in open(rp):
            try: done.add(json.loads(l)["id"])
            except Exception: pass
    todo = [m for m in muts if m["id"] not in done]
    print(len(todo), "to run,", len(done), "done")
    off = int(os.environ.get("MUT_OFFSET", "0"))
    ws = [setup_worker(off + k) for k in range(workers)]
    # mutants of one file go to one worker in sequence (incremental builds stay warm); files are spread over workers
    import queue
    q = queue.Queue()
    for m in todo: q.put(m)
    lock = __import__("threading").Lock()
    def loop(w):
        while True:
            try: m = q.get_nowait()
            except queue.Empty: return
            r = run_one(w, m)
            with lock:
                open(rp, "a").write(json.dumps(r) + "\n")
                print(r.get("status"), m["file"], m["line"], m["op"], r.get("secs"), flush=True)
    with ThreadPoolExecutor(max_workers=workers) as ex:
        list(ex.map(loop, ws))

def report():
    muts = {m["id"]: m for m in json.load(open(f"{ROOT}/mutants.json"))}
    rs = [json.loads(l) for l in open(f"{ROOT}/results.jsonl")]
    by = {}
    for r in rs:
        by.setdefault(r["status"], []).append(r)
    for k, v in sorted(by.items()):
        print(k, len(v))
    for r in by.get("survived", []) + by.get("machinery", []):
        m = muts.get(r["id"], {})
        print(f"\n[{r['status']}] {r.get('file')}:{r.get('line')}  {r.get('op')}  checks={r.get('checks')}\n   - {m.get('old','').strip()}\n   + {m.get('new','').strip()}")

if __name__ == "__main__":
    if sys.argv[1] == "gen": gen()
    elif sys.argv[1] == "run": run(int(sys.argv[2]) if len(sys.argv) > 2 else 4, sys.argv[3] if len(sys.argv) > 3 else None)
    elif sys.argv[1] == "report": report()
    elif sys.argv[1] == "forget-survivors":
        # so that `run` tries them again against the current checks
        rp = f"{ROOT}/results.jsonl"
        keep = [l for l in open(rp) if json.loads(l)["status"] not in ("survived", "machinery")]
        shutil.copy(rp, rp + ".before-rerun")
        open(rp, "w").writelines(keep)
        print("kept", len(keep))
