#!/usr/bin/env python3
"""Confirm and evaluate seeded changes produced by independent sub-agents.

  seed.py confirm <Cxx> <A|B>     in the scratch worktree /tmp/seed/<Cxx>: patch applies, builds, suite at baseline
                                  (99 pass, test_url_parser fails), demonstration fails with / passes without
  seed.py detect  <Cxx> <A|B> [checks...]   apply to /repo, run ./hv check <c> quick for each check, undo
  seed.py keep    <Cxx> <A|B> <needs...>    copy patch + demo sources + meta.json to /verif/seeded/<Cxx>-<A|B>/
"""
import json, os, shutil, subprocess, sys, glob, time
SEED = "/tmp/seed"

def sh(cmd, cwd=None, env=None, timeout=1800):
    e = dict(os.environ); e["CARGO_NET_OFFLINE"] = "true"
    if env: e.update(env)
    p = subprocess.run(cmd, shell=True, cwd=cwd, env=e, stdout=subprocess.PIPE, stderr=subprocess.STDOUT, text=True, timeout=timeout)
    return p.returncode, p.stdout

def demo_dir(pid, v):
    base = f"{SEED}/out/{pid}/{v}"
    for d in [base + "/demo", base]:
        if os.path.exists(d + "/Cargo.toml"):
            return d
    # any nested crate
    for f in glob.glob(base + "/**/Cargo.toml", recursive=True):
        if "/target/" not in f:
            return os.path.dirname(f)
    return None

def suite(wt):
    rc, out = sh("cargo test --workspace --no-fail-fast --offline 2>&1", cwd=wt, env={"CARGO_TARGET_DIR": wt + "/target"})
    passed = sum(int(l.split("ok. ")[1].split(" passed")[0]) if "ok. " in l else int(l.split("FAILED. ")[1].split(" passed")[0]) for l in out.splitlines() if l.startswith("test result:"))
    failed = [l.split()[1] for l in out.splitlines() if l.startswith("test ") and l.rstrip().endswith("FAILED")]
    return passed, failed

def run_demo(pid, v, wt):
    base = f"{SEED}/out/{pid}/{v}"
    if os.path.exists(base + "/run.sh"):
        try:
            rc, out = sh("bash run.sh 2>&1", cwd=base, env={"CARGO_TARGET_DIR": wt + "/target"}, timeout=900)
        except subprocess.TimeoutExpired:
            return 124, "timeout"
        return rc, out[-1500:]
    d = demo_dir(pid, v)
    if not d:
        return None, "no demo crate found"
    t0 = time.time()
    try:
        cmd = "cargo test --offline 2>&1" if os.path.isdir(d + "/tests") and not os.path.exists(d + "/src/main.rs") else "cargo run --offline -q 2>&1"
        rc, out = sh(cmd, cwd=d, env={"CARGO_TARGET_DIR": wt + "/target"}, timeout=900)
    except subprocess.TimeoutExpired:
        return 124, "timeout"
    return rc, out[-1500:] + f"\n[{time.time()-t0:.0f}s]"

def confirm(pid, v):
    wt = f"{SEED}/{pid}"
    patch = f"{SEED}/out/{pid}/{v}/patch.diff"
    sh("git checkout -- .", cwd=wt)
    rc, out = sh(f"git apply --check {patch}", cwd=wt)
    if rc != 0:
        print("PATCH DOES NOT APPLY:", out); return False
    rc0, o0 = run_demo(pid, v, wt)
    print(f"demo on unchanged tree: exit {rc0}")
    sh(f"git apply {patch}", cwd=wt)
    rc, out = sh("cargo build --workspace --offline 2>&1 | tail -3", cwd=wt, env={"CARGO_TARGET_DIR": wt + "/target"})
    passed, failed = suite(wt)
    print(f"suite with patch: {passed} passed, failed: {failed}")
    rc1, o1 = run_demo(pid, v, wt)
    print(f"demo with patch: exit {rc1}")
    print((o1 or "")[-600:])
    sh("git checkout -- .", cwd=wt)
    ok = rc0 == 0 and rc1 not in (0, None) and passed == 99 and failed == ["tests::client::test_url_parser"]
    print("CONFIRMED" if ok else "NOT CONFIRMED")
    return ok

def detect(pid, v, checks):
    patch = f"{SEED}/out/{pid}/{v}/patch.diff"
    if not os.path.exists(patch):
        patch = f"/verif/seeded/{pid}-{v}/patch.diff"
    rc, out = sh("git status --porcelain", cwd="/repo")
    if out.strip():
        print("/repo is dirty, refusing"); return
    rc, out = sh(f"git apply {patch}", cwd="/repo")
    if rc != 0:
        print("PATCH DOES NOT APPLY TO /repo:", out); return
    res = {}
    try:
        for c in checks:
            t0 = time.time()
            rc, out = sh(f"./hv check {c} quick", cwd="/verif", timeout=3600)
            vio = [l for l in out.splitlines() if l.startswith("VIOLATION")]
            sigs = [l.strip()[:260] for l in out.splitlines() if l.strip().startswith("signature=")]
            res[c] = {"exit": rc, "violations": len(vio), "first": sigs[:2], "wall": round(time.time() - t0)}
            print(c, "exit", rc, "violations", len(vio), f"{time.time()-t0:.0f}s")
            for s in sigs[:2]: print("   ", s)
            if rc not in (0, 1):
                print(out[-1500:])
    finally:
        sh("git checkout -- .", cwd="/repo")
    return res

def keep(pid, v, needs, caught_by, notes=""):
    dst = f"/verif/seeded/{pid}-{v}"
    os.makedirs(dst, exist_ok=True)
    shutil.copy(f"{SEED}/out/{pid}/{v}/patch.diff", dst + "/patch.diff")
    d = demo_dir(pid, v)
    if d:
        dd = dst + "/demo"
        if os.path.exists(dd): shutil.rmtree(dd)
        shutil.copytree(d, dd, ignore=shutil.ignore_patterns("target", "*.log", "patch.diff", "NOTES.md", "Cargo.lock"))
    for extra in glob.glob(f"{SEED}/out/{pid}/{v}/*.rs") + glob.glob(f"{SEED}/out/{pid}/{v}/run.sh"):
        shutil.copy(extra, dst)
    n = f"{SEED}/out/{pid}/{v}/NOTES.md"
    if os.path.exists(n): shutil.copy(n, dst + "/NOTES.md")
    meta = {"property": pid[:3], "seed_id": pid, "variant": v, "needs_to_manifest": needs, "caught_by": caught_by, "notes": notes,
            "confirmed": "patch applies to a scratch worktree of /repo HEAD, workspace builds, suite = baseline (99 pass, tests::client::test_url_parser fails as on the unchanged tree), demonstration exits non-zero with the patch and 0 without (tools/seed.py confirm)",
            "ran": [f"tools/seed.py confirm {pid} {v}", f"tools/seed.py detect {pid} {v} ..."]}
    json.dump(meta, open(dst + "/meta.json", "w"), indent=1)
    print("kept", dst)

def sweep():
    """Regression: every kept seeded change must be reported by the checks recorded in its meta.json."""
    out = {}
    for d in sorted(glob.glob("/verif/seeded/*/meta.json")):
        m = json.load(open(d))
        sid = m.get("seed_id", m["property"])
        key = f"{sid}-{m['variant']}"
        checks = m.get("caught_by") or [m["property"]]
        r = detect(sid, m["variant"], checks)
        out[key] = r
    json.dump(out, open("/verif/seeded/SWEEP.json", "w"), indent=1)
    missed = [k for k, r in out.items() if not r or not any(x["exit"] == 1 for x in r.values())]
    print("MISSED:", missed)

if __name__ == "__main__":
    if sys.argv[1] == "sweep":
        sweep(); sys.exit(0)
    a = sys.argv[1:]
    if a[0] == "confirm": sys.exit(0 if confirm(a[1], a[2]) else 1)
    if a[0] == "detect": detect(a[1], a[2], a[3:] or [a[1]])
    if a[0] == "keep": keep(a[1], a[2], a[3], json.loads(a[4]), a[5] if len(a) > 5 else "")
