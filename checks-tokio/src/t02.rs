//! C02, tokio parser: same families and oracle as the threaded runner, `AsyncRead` with cut plans
//! and injected Pending polls on a current-thread runtime.
use crate::aio::{block_on, AsyncCut};
use crate::plans::{plans, Depth};
use crate::props::c02_gen::*;
use crate::report::{show, Stats};
use humphrey::http::Request;
use rayon::prelude::*;
use serde_json::json;
use std::net::SocketAddr;

fn check_request(s: &mut Stats, fam: &str, r: &Req, depth: Depth, all_cuts_below: usize) {
    let bytes = r.bytes();
    let peer: SocketAddr = PEER.parse().unwrap();
    s.states += 1;
    if !r.headers.is_empty() || r.body.is_some() {
        s.nontrivial += 1;
    }
    let focus = r.boundaries();
    let pl = if bytes.len() <= all_cuts_below { plans(bytes.len(), depth, None) } else { plans(bytes.len().min(70_000), Depth::Single, Some(&focus)) };
    let mut first = true;
    for cuts in pl {
        if bytes.len() > 2000 && cuts.len() > 64 {
            continue;
        }
        // Pending placements: none; before each of the first 6 delivering polls; the first two together
        let mut pends: Vec<Vec<usize>> = vec![vec![]];
        if cuts.len() <= 2 {
            for k in 0..6 {
                pends.push(vec![k]);
            }
            pends.push(vec![0, 1]);
            pends.push(vec![1, 3]);
        } else if first {
            pends.push((0..200).step_by(2).collect());
        }
        for pend in pends {
            s.evaluations += 1;
            s.transitions += 1;
            let (b2, c2, p2) = (bytes.clone(), cuts.clone(), pend.clone());
            let _call = crate::report::enter(&bytes);
            let res = std::panic::catch_unwind(move || {
                let mut rd = AsyncCut::new(b2, c2, p2);
                block_on(async { Request::from_stream(&mut rd, peer).await })
            });
            let ctx = |what: String| json!({"runtime": "tokio", "family": fam, "what": what, "request_head": show(&bytes[..bytes.len().min(220)]), "len": bytes.len(), "cuts": if cuts.len() > 12 { json!(format!("{} cuts (bytewise)", cuts.len())) } else { json!(cuts) }, "pending_before_polls": pend.iter().take(8).collect::<Vec<_>>()});
            match res {
                Err(_) => s.violation(format!("[tokio, {}] parser panicked on a well-formed request", fam), || ctx("panic".into())),
                Ok(Err(e)) => s.violation(format!("[tokio, {}] well-formed request rejected", fam), || ctx(format!("{:?}", e))),
                Ok(Ok(got)) => {
                    if let Some(m) = mismatch(r, &got, peer) {
                        let class = m.split(' ').next().unwrap_or("").to_string();
                        s.violation(format!("[tokio, {}] parsed request differs from the bytes sent ({}){}", fam, class, if cuts.is_empty() && pend.is_empty() { "" } else { " under a split delivery / pending poll" }), || ctx(m.clone()));
                        continue;
                    }
                    if first {
                        first = false;
                        let again_bytes: Vec<u8> = got.clone().into();
                        let ab = again_bytes.clone();
                        let again = std::panic::catch_unwind(move || {
                            let mut rd = AsyncCut::new(ab, vec![], vec![]);
                            block_on(async { Request::from_stream(&mut rd, peer).await })
                        });
                        match again {
                            Ok(Ok(g2)) if same_request(&got, &g2) => s.outcome("tokio-roundtrip-ok"),
                            Ok(Ok(_)) => s.violation(format!("[tokio, {}] parse(serialise(request)) differs from the request", fam), || ctx(show(&again_bytes[..again_bytes.len().min(300)]))),
                            Ok(Err(e)) => s.violation(format!("[tokio, {}] serialised request does not parse", fam), || ctx(format!("{:?}", e))),
                            Err(_) => s.violation(format!("[tokio, {}] round trip panicked", fam), || ctx("panic".into())),
                        }
                    }
                }
            }
        }
    }
}

pub fn run(quick: bool) -> Stats {
    let fams = families(quick);
    let mut st = Stats::default();
    for (name, reqs, depth, below) in fams.list {
        let part = reqs
            .par_iter()
            .fold(Stats::default, |mut s, r| {
                check_request(&mut s, name, r, depth, below);
                s
            })
            .reduce(Stats::default, |mut a, b| {
                a.merge(b);
                a
            });
        st.count(&format!("tokio requests[{}]", name), reqs.len() as u64);
        st.merge(part);
    }
    st
}
