//! C01, tokio runtime: the real async connection handler serves a scripted in-memory connection
//! (Stream::Verif) on a current-thread runtime; same sequences, plans (without connection timeouts,
//! which the tokio App does not offer), reference server and judge as the threaded runner, plus
//! Pending polls injected before reads.
use crate::aio::{block_on, AsyncCut};
use crate::props::c01_gen::*;
use crate::report::{show, Stats};
use humphrey::http::cors::Cors;
use humphrey::http::method::Method;
use humphrey::http::{Request, Response, StatusCode};
use humphrey::stream::Stream;
use humphrey::App;
use std::pin::Pin;
use std::sync::{Arc, Mutex};
use std::task::{Context, Poll};
use tokio::io::{AsyncRead, AsyncWrite, ReadBuf};

type Log = Arc<Mutex<Vec<String>>>;

fn note(route: &str, r: &Request, st: &Arc<Log>) {
    st.lock().unwrap().push(format!("{} {} {}?{} {} body={:?}", route, r.method, r.uri, r.query, r.version, r.content.as_ref().map(|b| show(b))));
}

fn build_app(log: Log) -> App<Log> {
    App::new_with_config(log)
        .with_route("/r", |r: Request, st: Arc<Log>| async move {
            note("r", &r, &st);
            Response::new(StatusCode::OK, b"routed")
        })
        .with_route("/e", |r: Request, st: Arc<Log>| async move {
            note("e", &r, &st);
            Response::new(StatusCode::Created, r.content.unwrap_or_default())
        })
        .with_route("/empty", |r: Request, st: Arc<Log>| async move {
            note("empty", &r, &st);
            Response::empty(StatusCode::OK)
        })
        .with_route("/c", |r: Request, st: Arc<Log>| async move {
            note("c", &r, &st);
            Response::new(StatusCode::OK, b"cors")
        })
        .with_route("/p", |r: Request, st: Arc<Log>| async move {
            note("p", &r, &st);
            if r.uri == "/p" {
                panic!("handler panic injected by the C01 harness");
            }
            Response::empty(StatusCode::OK)
        })
        .with_cors_config("/c", Cors::new().with_origin("https://a.test").with_method(Method::Get).with_header("X-T"))
}

struct Shared(Arc<Mutex<AsyncCut>>);
impl AsyncRead for Shared {
    fn poll_read(self: Pin<&mut Self>, cx: &mut Context<'_>, buf: &mut ReadBuf<'_>) -> Poll<std::io::Result<()>> {
        Pin::new(&mut *self.0.lock().unwrap()).poll_read(cx, buf)
    }
}
impl AsyncWrite for Shared {
    fn poll_write(self: Pin<&mut Self>, cx: &mut Context<'_>, buf: &[u8]) -> Poll<std::io::Result<usize>> {
        Pin::new(&mut *self.0.lock().unwrap()).poll_write(cx, buf)
    }
    fn poll_flush(self: Pin<&mut Self>, _cx: &mut Context<'_>) -> Poll<std::io::Result<()>> {
        Poll::Ready(Ok(()))
    }
    fn poll_shutdown(self: Pin<&mut Self>, _cx: &mut Context<'_>) -> Poll<std::io::Result<()>> {
        Poll::Ready(Ok(()))
    }
}

fn serve(seq: &[R], plan: &Plan, pending: Vec<usize>) -> Outcome {
    serve_w(seq, plan, pending, usize::MAX)
}

fn serve_w(seq: &[R], plan: &Plan, pending: Vec<usize>, max_write: usize) -> Outcome {
    let log: Log = Arc::new(Mutex::new(vec![]));
    let parts = build_app(log.clone()).verif_into_parts();
    let mut bytes = vec![];
    for r in seq {
        bytes.extend(r.bytes());
    }
    let head: Vec<u8> = bytes[..bytes.len().min(160)].to_vec();
    let mut cut = AsyncCut::new(bytes, plan.cuts.clone(), pending);
    cut.max_write = max_write;
    let io = Arc::new(Mutex::new(cut));
    let io2 = io.clone();
    let _call = crate::report::enter(&head);
    let r = std::panic::catch_unwind(std::panic::AssertUnwindSafe(|| {
        block_on(async {
            parts.serve(Stream::Verif(Box::pin(Shared(io2)), "198.51.100.7:5555".parse().unwrap())).await;
        })
    }));
    let out = io.lock().unwrap().out.clone();
    let l = log.lock().unwrap().clone();
    Outcome { out, log: l, panicked: r.is_err(), shutdown_or_dropped: true }
}

pub fn run(quick: bool) -> Stats {
    let mut st = Stats::default();
    let plain = |seq: &[R], plan: &Plan| serve(seq, plan, vec![]);
    let pend_first = |seq: &[R], plan: &Plan| serve(seq, plan, vec![0, 2]);
    let pend_many = |seq: &[R], plan: &Plan| serve(seq, plan, (1..400).step_by(2).collect());
    run_seqs(&mut st, "tokio singles", singles().into_iter().map(|r| vec![r]).collect(), !quick, true, false, &plain, "tokio");
    run_seqs(&mut st, "tokio singles, pending polls", singles().into_iter().map(|r| vec![r]).collect(), false, false, false, &pend_first, "tokio");
    let mut pairs = vec![];
    for a in firsts() {
        for b in seconds() {
            pairs.push(vec![a.clone(), b]);
        }
    }
    run_seqs(&mut st, "tokio pairs", pairs.clone(), false, true, false, &plain, "tokio");
    run_seqs(&mut st, "tokio pairs, pending polls", pairs, false, false, false, &pend_many, "tokio");
    run_seqs(&mut st, "tokio stale-state triples", stale_state_triples(), false, false, false, &plain, "tokio");
    // the connection takes only a few bytes per write (short writes): every response must still arrive whole
    let short7 = |seq: &[R], plan: &Plan| serve_w(seq, plan, vec![], 7);
    let short1 = |seq: &[R], plan: &Plan| serve_w(seq, plan, vec![], 1);
    run_seqs(&mut st, "tokio singles, short writes", singles().into_iter().map(|r| vec![r]).collect(), false, false, false, &short7, "tokio");
    run_seqs(&mut st, "tokio stale-state triples, one byte per write", stale_state_triples(), false, false, false, &short1, "tokio");
    st
}
