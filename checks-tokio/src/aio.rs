//! Scripted AsyncRead/AsyncWrite: delivers at most the bytes up to the next cut per poll and returns
//! `Pending` (after waking itself) before the polls named in `pending`.
use std::pin::Pin;
use std::task::{Context, Poll};
use tokio::io::{AsyncRead, AsyncWrite, ReadBuf};

pub struct AsyncCut {
    pub data: Vec<u8>,
    pub pos: usize,
    pub cuts: Vec<usize>,
    /// indices (in the sequence of data-delivering polls) before which one Pending is returned
    pub pending: Vec<usize>,
    pub delivered_polls: usize,
    pub gave_pending: bool,
    pub out: Vec<u8>,
    pub reads_at_eof: usize,
    /// a write takes at most this many bytes (a short write, as a socket with a nearly full send buffer gives)
    pub max_write: usize,
}

impl AsyncCut {
    pub fn new(data: Vec<u8>, cuts: Vec<usize>, pending: Vec<usize>) -> Self {
        AsyncCut { data, pos: 0, cuts, pending, delivered_polls: 0, gave_pending: false, out: vec![], reads_at_eof: 0, max_write: usize::MAX }
    }
}

impl AsyncRead for AsyncCut {
    fn poll_read(mut self: Pin<&mut Self>, cx: &mut Context<'_>, buf: &mut ReadBuf<'_>) -> Poll<std::io::Result<()>> {
        let me = &mut *self;
        if me.pending.contains(&me.delivered_polls) && !me.gave_pending {
            me.gave_pending = true;
            cx.waker().wake_by_ref();
            return Poll::Pending;
        }
        me.gave_pending = false;
        me.delivered_polls += 1;
        if me.pos >= me.data.len() {
            me.reads_at_eof += 1;
            if me.reads_at_eof > 100_000 {
                panic!("verif: more than 100000 reads at end of input (reader does not terminate)");
            }
            return Poll::Ready(Ok(()));
        }
        let mut end = me.data.len();
        for &c in &me.cuts {
            if c > me.pos {
                end = end.min(c);
                break;
            }
        }
        let n = buf.remaining().min(end - me.pos);
        buf.put_slice(&me.data[me.pos..me.pos + n]);
        me.pos += n;
        Poll::Ready(Ok(()))
    }
}

impl AsyncWrite for AsyncCut {
    fn poll_write(mut self: Pin<&mut Self>, _cx: &mut Context<'_>, buf: &[u8]) -> Poll<std::io::Result<usize>> {
        let n = buf.len().min(self.max_write);
        self.out.extend_from_slice(&buf[..n]);
        Poll::Ready(Ok(n))
    }
    fn poll_flush(self: Pin<&mut Self>, _cx: &mut Context<'_>) -> Poll<std::io::Result<()>> {
        Poll::Ready(Ok(()))
    }
    fn poll_shutdown(self: Pin<&mut Self>, _cx: &mut Context<'_>) -> Poll<std::io::Result<()>> {
        Poll::Ready(Ok(()))
    }
}

thread_local! {
    pub static RT: tokio::runtime::Runtime = tokio::runtime::Builder::new_current_thread().enable_all().build().expect("tokio current-thread runtime");
}

pub fn block_on<F: std::future::Future>(f: F) -> F::Output {
    RT.with(|rt| rt.block_on(f))
}
