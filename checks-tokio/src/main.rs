//! hvc-tokio — tokio twins of the checks that also quantify over the tokio runtime. Built against
//! humphrey with the `tokio` feature (which replaces app/stream/handlers wholesale). Prints
//! `RESULT <stats json>`; the main binary merges it into the property's evidence.
#![allow(dead_code)]
#[path = "../../checks/src/plans.rs"]
mod plans;
#[path = "../../checks/src/report.rs"]
mod report;
mod props;
mod aio;
mod t01;
mod t02;
mod t04;
mod t06;
mod t20;

fn main() {
    let args: Vec<String> = std::env::args().collect();
    std::panic::set_hook(Box::new(|_| {}));
    let quick = !args.iter().any(|a| a == "thorough");
    report::start_hang_watchdog_twin("tokio");
    let st = match args.get(1).map(|s| s.as_str()) {
        Some("C01") => t01::run(quick),
        Some("C02") => t02::run(quick),
        Some("C04") => t04::run(quick),
        Some("C06") => t06::run(quick),
        Some("C20") => t20::run(quick),
        _ => {
            eprintln!("hvc-tokio: no tokio twin for {:?}", args.get(1));
            std::process::exit(2);
        }
    };
    println!("RESULT {}", st.to_json());
}
