//! C04, tokio runtime: the same applications and requests as the threaded runner, built through the
//! tokio App's public API and served by its real async connection handler over a scripted stream.
use crate::aio::{block_on, AsyncCut};
use crate::props::c04_gen::*;
use crate::report::Stats;
use humphrey::http::{Request, Response, StatusCode};
use humphrey::stream::Stream;
use humphrey::{App, SubApp};
use rayon::prelude::*;
use std::pin::Pin;
use std::sync::{Arc, Mutex};
use std::task::{Context, Poll};
use tokio::io::{AsyncRead, AsyncWrite, AsyncWriteExt, ReadBuf};

struct Shared(Arc<Mutex<AsyncCut>>);
impl AsyncRead for Shared {
    fn poll_read(self: Pin<&mut Self>, cx: &mut Context<'_>, buf: &mut ReadBuf<'_>) -> Poll<std::io::Result<()>> {
        Pin::new(&mut *self.0.lock().unwrap()).poll_read(cx, buf)
    }
}
impl AsyncWrite for Shared {
    fn poll_write(self: Pin<&mut Self>, cx: &mut Context<'_>, buf: &[u8]) -> Poll<std::io::Result<usize>> {
        Pin::new(&mut *self.0.lock().unwrap()).poll_write(cx, buf)
    }
    fn poll_flush(self: Pin<&mut Self>, _cx: &mut Context<'_>) -> Poll<std::io::Result<()>> {
        Poll::Ready(Ok(()))
    }
    fn poll_shutdown(self: Pin<&mut Self>, _cx: &mut Context<'_>) -> Poll<std::io::Result<()>> {
        Poll::Ready(Ok(()))
    }
}

fn http(id: String) -> impl Fn(Request, Arc<()>) -> std::future::Ready<Response> + Send + Sync + 'static {
    move |_req: Request, _st: Arc<()>| std::future::ready(Response::new(StatusCode::OK, id.as_bytes()))
}

fn http_stateless(id: String) -> impl Fn(Request) -> std::future::Ready<Response> + Send + Sync + 'static {
    move |_req: Request| std::future::ready(Response::new(StatusCode::OK, id.as_bytes()))
}

fn http_path_aware(id: String, reg: &'static str) -> impl Fn(Request, Arc<()>, &'static str) -> std::future::Ready<Response> + Send + Sync + 'static {
    move |_req: Request, _st: Arc<()>, route: &'static str| std::future::ready(Response::new(StatusCode::OK, path_aware_answer(&id, reg, route)))
}

fn wsh(id: String) -> impl Fn(Request, Stream, Arc<()>) -> Pin<Box<dyn std::future::Future<Output = ()> + Send>> + Send + Sync + 'static {
    move |_req: Request, mut stream: Stream, _st: Arc<()>| {
        let id = id.clone();
        Box::pin(async move {
            let _ = stream.write_all(id.as_bytes()).await;
        })
    }
}

fn build(cfg: &Cfg) -> App<()> {
    let mut app: App<()> = App::new_with_config(());
    for (i, r) in cfg.default_routes.iter().enumerate() {
        app = match cfg.kind(i) {
            0 => app.with_route(r, http(format!("dr{}", i))),
            1 => app.with_stateless_route(r, http_stateless(format!("dr{}", i))),
            _ => app.with_path_aware_route(leak(r), http_path_aware(format!("dr{}", i), leak(r))),
        };
    }
    for (i, r) in cfg.default_ws.iter().enumerate() {
        app = app.with_websocket_route(r, wsh(format!("dw{}", i)));
    }
    for (i, (h, routes, ws)) in cfg.hosts.iter().enumerate() {
        let mut s: SubApp<()> = SubApp::new();
        for (j, r) in routes.iter().enumerate() {
            s = match cfg.kind(j) {
                0 => s.with_route(r, http(format!("h{}r{}", i, j))),
                1 => s.with_stateless_route(r, http_stateless(format!("h{}r{}", i, j))),
                _ => s.with_path_aware_route(leak(r), http_path_aware(format!("h{}r{}", i, j), leak(r))),
            };
        }
        for (j, r) in ws.iter().enumerate() {
            s = s.with_websocket_route(r, wsh(format!("h{}w{}", i, j)));
        }
        app = app.with_host(h, s);
    }
    app
}

fn check_cfg(s: &mut Stats, cfg: &Cfg, cases: &[Case]) {
    let Ok(parts) = std::panic::catch_unwind(std::panic::AssertUnwindSafe(|| build(cfg).verif_into_parts())) else {
        s.violation(format!("{}building the application through the public API panicked", if "tokio".is_empty() { String::new() } else { format!("[{}] ", "tokio") }), || serde_json::json!({"hosts": format!("{:?}", cfg.hosts), "default_routes": cfg.default_routes}));
        return;
    };
    s.states += 1;
    if !cfg.hosts.is_empty() {
        s.nontrivial += 1;
    }
    for c in cases {
        let io = Arc::new(Mutex::new(AsyncCut::new(c.bytes.clone(), vec![], vec![])));
        let io2 = io.clone();
        let _call = crate::report::enter(&c.bytes);
        let r = std::panic::catch_unwind(std::panic::AssertUnwindSafe(|| {
            block_on(async {
                parts.serve(Stream::Verif(Box::pin(Shared(io2)), "127.0.0.1:9".parse().unwrap())).await;
            })
        }));
        let out = io.lock().unwrap().out.clone();
        judge(s, "tokio", cfg, c, r.map(|_| out).map_err(|_| ()));
    }
}

pub fn run(quick: bool) -> Stats {
    let cfgs = family(quick);
    let (with, without) = (cases(true), cases(false));
    cfgs.par_iter()
        .fold(Stats::default, |mut s, (c, ws)| {
            check_cfg(&mut s, c, if *ws { &with } else { &without });
            s
        })
        .reduce(Stats::default, |mut a, b| {
            a.merge(b);
            a
        })
}
