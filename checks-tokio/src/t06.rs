//! C06, tokio runtime: humphrey's tokio build has its own serve_dir / serve_as_file_path / serve_file
//! (async file I/O, same path logic); the same trees, paths, reference resolver and judge as the
//! threaded runner, one segment shallower (the shared path resolution is covered at full depth there).
use crate::aio::block_on;
use crate::props::c06_gen::*;
use crate::report::Stats;
use humphrey::handlers::{serve_as_file_path, serve_dir, serve_file};
use humphrey::handler_traits::{PathAwareRequestHandler, RequestHandler};
use rayon::prelude::*;
use serde_json::json;
use std::sync::Arc;

pub fn run(quick: bool) -> Stats {
    let depth = if quick { 2 } else { 3 };
    let ps = paths(depth);
    let base0 = crate::report::root().join(".target").join("scratch").join(format!("t06-{}", std::process::id()));
    let part = masks(quick)
        .par_iter()
        .fold(Stats::default, |mut s, &mask| {
            let base = base0.join(format!("t{:03x}", mask));
            let root = make_tree(&base, mask);
            let root_s: &'static str = Box::leak(root.to_str().unwrap().to_string().into_boxed_str());
            let root_slash: &'static str = Box::leak(format!("{}/", root_s).into_boxed_str());
            let h_dir = serve_dir::<()>(root_s);
            let h_dir_slash = serve_dir::<()>(root_slash);
            let h_lit = serve_as_file_path::<()>(root_s);
            let h_lit_slash = serve_as_file_path::<()>(root_slash);
            for p in &ps {
                let spellings = [p.clone(), p.split('/').map(encode_all).collect::<Vec<_>>().join("/")];
                for uri in spellings.iter() {
                    s.states += 1;
                    let interesting = uri.contains("..") || uri.to_ascii_lowercase().contains("%2e") || uri.contains("%c0");
                    for (route, prefix) in [("/*", ""), ("/s/*", "/s"), ("/s", "/s")] {
                        let full = format!("{}{}", prefix, uri);
                        let stripped = full.strip_prefix(route.strip_suffix('*').unwrap_or(route)).unwrap_or(&full).to_string();
                        let want = resolve_dir(&root, &stripped, &full);
                        if matches!(want, Want::File(_) | Want::Redirect(_)) || interesting {
                            s.nontrivial += 1;
                        }
                        let h = if route == "/s" { &h_dir_slash } else { &h_dir };
                        let r = std::panic::catch_unwind(std::panic::AssertUnwindSafe(|| block_on(h.serve(request(&full), Arc::new(()), route))));
                        judge(&mut s, "tokio serve_dir", mask, &full, &want, r);
                    }
                    let want = resolve_literal(&root, uri);
                    for h in [&h_lit, &h_lit_slash] {
                        let r = std::panic::catch_unwind(std::panic::AssertUnwindSafe(|| block_on(h.serve(request(uri), Arc::new(())))));
                        judge(&mut s, "tokio serve_as_file_path", mask, uri, &want, r);
                    }
                }
            }
            // serve_file: the configured file, whatever the request path says
            for (i, (rel, _)) in MENU.iter().enumerate() {
                let fp: &'static str = Box::leak(format!("{}/{}", root_s, rel).into_boxed_str());
                let h = serve_file::<()>(fp);
                let want = if mask & (1 << i) != 0 { Want::File(fp.into()) } else { Want::NotFound };
                for uri in ["/", "/x", "/../canary.txt", "/%2e%2e/canary.txt"] {
                    s.states += 1;
                    s.nontrivial += 1;
                    let r = std::panic::catch_unwind(std::panic::AssertUnwindSafe(|| block_on(h.serve(request(uri), Arc::new(())))));
                    judge(&mut s, "tokio serve_file", mask, uri, &want, r);
                }
            }
            let _ = std::fs::remove_dir_all(&base);
            s.sample(|| json!({"runtime": "tokio", "tree_mask": mask, "paths": ps.len() * 2}));
            s
        })
        .reduce(Stats::default, |mut a, b| {
            a.merge(b);
            a
        });
    let _ = std::fs::remove_dir_all(&base0);
    part
}
