#[path = "../../../checks/src/props/c01_gen.rs"]
pub mod c01_gen;
#[path = "../../../checks/src/props/c02_gen.rs"]
pub mod c02_gen;
#[path = "../../../checks/src/props/c04_gen.rs"]
pub mod c04_gen;
#[path = "../../../checks/src/props/c06_gen.rs"]
pub mod c06_gen;
