#[path = "../../../checks/src/props/c02_gen.rs"]
pub mod c02_gen;
