//! C20, tokio runtime: the multi-threaded tokio scheduler and tokio::net cannot be put under the
//! controlled scheduler, so schedules are NOT enumerated here. The finite set of traffic states
//! explored on the threaded runtime is replayed once each against the real tokio `App::run` on
//! real loopback sockets: `run` must return within a bound after the token is cancelled, the port
//! must be bindable again and nothing a client received may be a truncated response.
use crate::report::Stats;
use humphrey::http::{Request, Response, StatusCode};
use humphrey::stream::Stream;
use humphrey::App;
use serde_json::json;
use std::io::{Read, Write};
use std::sync::{Arc, Mutex};
use std::time::{Duration, Instant};
use tokio::io::{AsyncReadExt, AsyncWriteExt};
use tokio_util::sync::CancellationToken;

#[derive(Clone, Copy, Debug, PartialEq)]
pub enum Conn {
    JustConnected,
    HalfRequest,
    Short,
    KeepAliveIdle,
    Long,
    WebSocket,
    /// response larger than the socket buffers, read only after `run` has returned
    BigResponse,
    /// forty connections that are reset (SO_LINGER 0) the moment they are established: some are gone before the
    /// server has accepted them
    ResetStorm,
    /// a peer the connection condition turns away (it connects from 127.0.0.2), silent, socket kept open
    DeniedSilent,
}
const BIG: usize = 8 << 20;

fn parse_responses(mut b: &[u8]) -> (usize, usize) {
    let mut n = 0;
    loop {
        while b.starts_with(b"\r\n") {
            b = &b[2..];
        }
        if b.is_empty() {
            return (n, 0);
        }
        let Some(h) = b.windows(4).position(|w| w == b"\r\n\r\n") else { return (n, b.len()) };
        let head = String::from_utf8_lossy(&b[..h]).to_string();
        if !head.starts_with("HTTP/1.") {
            return (n, b.len());
        }
        let cl = head.split("\r\n").skip(1).filter_map(|l| l.split_once(':')).find(|(k, _)| k.eq_ignore_ascii_case("content-length")).and_then(|(_, v)| v.trim().parse::<usize>().ok()).unwrap_or(0);
        if b.len() < h + 4 + cl {
            return (n, b.len());
        }
        b = &b[h + 4 + cl..];
        n += 1;
    }
}

fn socket_linger0(s: &std::net::TcpStream) -> std::io::Result<()> {
    use std::os::unix::io::AsRawFd;
    #[repr(C)]
    struct Linger {
        l_onoff: i32,
        l_linger: i32,
    }
    extern "C" {
        fn setsockopt(fd: i32, level: i32, name: i32, val: *const std::ffi::c_void, len: u32) -> i32;
    }
    let l = Linger { l_onoff: 1, l_linger: 0 };
    // SOL_SOCKET = 1, SO_LINGER = 13 on Linux
    let rc = unsafe { setsockopt(s.as_raw_fd(), 1, 13, &l as *const _ as *const std::ffi::c_void, std::mem::size_of::<Linger>() as u32) };
    if rc == 0 { Ok(()) } else { Err(std::io::Error::last_os_error()) }
}

fn replay(bind_ip: &str, conns: &[Conn]) -> Result<String, String> {
    let port = std::net::TcpListener::bind("127.0.0.1:0").unwrap().local_addr().unwrap().port();
    let bind = if bind_ip.contains(':') { format!("[{}]:{}", bind_ip, port) } else { format!("{}:{}", bind_ip, port) };
    let target = if bind_ip.contains(':') { format!("[::1]:{}", port) } else { format!("127.0.0.1:{}", port) };
    let rt = tokio::runtime::Builder::new_multi_thread().worker_threads(2).enable_all().build().map_err(|e| e.to_string())?;
    let token = CancellationToken::new();
    let gate = CancellationToken::new();
    let g2 = gate.clone();
    let entered = Arc::new(std::sync::atomic::AtomicUsize::new(0));
    let e2 = entered.clone();
    fn allowed(stream: &mut tokio::net::TcpStream, _s: Arc<()>) -> bool {
        stream.peer_addr().map_or(true, |a| a.ip() != std::net::IpAddr::from([127, 0, 0, 2]))
    }
    let app: App<()> = App::new_with_config(())
        .with_shutdown(token.clone())
        .with_connection_condition(allowed)
        .with_stateless_route("/", |_r: Request| async { Response::new(StatusCode::OK, b"0123456789abcdefghijklmnopqrstuvwxyz-body") })
        .with_stateless_route("/slow", move |_r: Request| {
            let g = g2.clone();
            let e = e2.clone();
            async move {
                e.fetch_add(1, std::sync::atomic::Ordering::SeqCst);
                g.cancelled().await;
                Response::new(StatusCode::OK, b"late")
            }
        })
        .with_stateless_route("/big", |_r: Request| async { Response::new(StatusCode::OK, vec![b'B'; BIG]) })
        .with_websocket_route("/ws", |_r: Request, mut stream: Stream, _s: Arc<()>| async move {
            let _ = stream.write_all(b"HTTP/1.1 101 Switching Protocols\r\n\r\n").await;
            let mut buf = [0u8; 16];
            while let Ok(n) = stream.read(&mut buf).await {
                if n == 0 {
                    break;
                }
            }
        });
    let b2 = bind.clone();
    let returned = Arc::new(Mutex::new(None::<(Instant, bool)>));
    let r2 = returned.clone();
    rt.spawn(async move {
        let r = app.run(b2.as_str()).await;
        *r2.lock().unwrap() = Some((Instant::now(), r.is_ok()));
    });
    let t0 = Instant::now();
    while std::net::TcpStream::connect(&target).map(drop).is_err() {
        if t0.elapsed() > Duration::from_secs(5) {
            return Err("listener never came up".into());
        }
        std::thread::sleep(Duration::from_millis(5));
    }
    let received: Arc<Mutex<Vec<Vec<u8>>>> = Arc::new(Mutex::new(vec![vec![]; conns.len()]));
    let mut socks = vec![];
    let start_reading = Arc::new(std::sync::atomic::AtomicBool::new(false));
    for (i, c) in conns.iter().enumerate() {
        if *c == Conn::ResetStorm {
            for _ in 0..40 {
                if let Ok(s) = std::net::TcpStream::connect(&target) {
                    // SO_LINGER {on, 0}: close() sends RST
                    let _ = socket_linger0(&s);
                    drop(s);
                }
            }
            // keep indices aligned: a placeholder connection that behaves like JustConnected
        }
        let mut s = if *c == Conn::DeniedSilent && !bind_ip.contains(':') {
            // connect from 127.0.0.2 (tokio's TcpSocket can bind before connecting)
            let t2 = target.clone();
            let rt2 = tokio::runtime::Builder::new_current_thread().enable_all().build().map_err(|e| e.to_string())?;
            let st = rt2.block_on(async move {
                let sock = tokio::net::TcpSocket::new_v4()?;
                sock.bind("127.0.0.2:0".parse().unwrap())?;
                sock.connect(t2.parse().unwrap()).await
            });
            match st.and_then(|x| x.into_std()) {
                Ok(x) => {
                    let _ = x.set_nonblocking(false);
                    x
                }
                Err(e) => return Err(format!("client connect from 127.0.0.2: {}", e)),
            }
        } else {
            std::net::TcpStream::connect(&target).map_err(|e| if returned.lock().unwrap().is_some() { "run() returned before the shutdown signal was sent".to_string() } else { format!("client connect: {}", e) })?
        };
        let bytes: &[u8] = match c {
            Conn::JustConnected => b"",
            Conn::HalfRequest => b"GET / HTTP/1.1\r\nHost: x",
            Conn::Short => b"GET / HTTP/1.1\r\nHost: x\r\nConnection: close\r\n\r\n",
            Conn::KeepAliveIdle => b"GET / HTTP/1.1\r\nHost: x\r\nConnection: keep-alive\r\n\r\n",
            Conn::Long => b"GET /slow HTTP/1.1\r\nHost: x\r\nConnection: close\r\n\r\n",
            Conn::WebSocket => b"GET /ws HTTP/1.1\r\nHost: x\r\nUpgrade: websocket\r\nConnection: Upgrade\r\n\r\n",
            Conn::BigResponse => b"GET /big HTTP/1.1\r\nHost: x\r\nConnection: close\r\n\r\n",
            Conn::ResetStorm | Conn::DeniedSilent => b"",
        };
        let _ = s.write_all(bytes);
        let (sr, late_reader) = (start_reading.clone(), *c == Conn::BigResponse);
        let rc = received.clone();
        let mut s2 = s.try_clone().unwrap();
        let _ = s2.set_read_timeout(Some(Duration::from_millis(1500)));
        std::thread::spawn(move || {
            while late_reader && !sr.load(std::sync::atomic::Ordering::SeqCst) {
                std::thread::sleep(Duration::from_millis(2));
            }
            let mut buf = vec![0u8; 1 << 16];
            while let Ok(n) = s2.read(&mut buf) {
                if n == 0 {
                    break;
                }
                rc.lock().unwrap()[i].extend_from_slice(&buf[..n]);
            }
        });
        socks.push(s);
    }
    // the signal comes once every slow request is being handled (bounded wait), so that "was being handled at
    // the signal" is a fact and not a timing assumption
    let n_long = conns.iter().filter(|c| **c == Conn::Long).count();
    let w0 = Instant::now();
    while entered.load(std::sync::atomic::Ordering::SeqCst) < n_long && w0.elapsed() < Duration::from_secs(3) {
        std::thread::sleep(Duration::from_millis(2));
    }
    std::thread::sleep(Duration::from_millis(60));
    let n_entered = entered.load(std::sync::atomic::Ordering::SeqCst);
    // until the signal is sent the server keeps serving: `run` has not returned and a fresh client gets its answer
    if returned.lock().unwrap().is_some() {
        rt.shutdown_background();
        return Err("run() returned before the shutdown signal was sent".into());
    }
    {
        let fresh = std::net::TcpStream::connect(&target).and_then(|mut f| {
            f.set_read_timeout(Some(Duration::from_secs(3)))?;
            f.write_all(b"GET / HTTP/1.1\r\nHost: x\r\nConnection: close\r\n\r\n")?;
            let mut v = vec![];
            let _ = f.read_to_end(&mut v);
            Ok(v)
        });
        if !matches!(&fresh, Ok(v) if parse_responses(v) == (1, 0)) {
            rt.shutdown_background();
            return Err("a fresh client is not served although no shutdown signal has been sent".into());
        }
    }
    let sent = Instant::now();
    token.cancel();
    let deadline = Instant::now() + Duration::from_secs(5);
    while returned.lock().unwrap().is_none() && Instant::now() < deadline {
        std::thread::sleep(Duration::from_millis(2));
    }
    let Some((at, ok)) = *returned.lock().unwrap() else {
        rt.shutdown_background();
        return Err("run() did not return within 5 s of the shutdown signal".into());
    };
    if !ok {
        rt.shutdown_background();
        return Err("run() returned an error".into());
    }
    let rebind = std::net::TcpListener::bind(bind.as_str());
    if rebind.is_err() {
        rt.shutdown_background();
        return Err(format!("port cannot be bound again right after run() returned: {:?}", rebind.err()));
    }
    drop(rebind);
    gate.cancel();
    start_reading.store(true, std::sync::atomic::Ordering::SeqCst);
    let owed: Vec<usize> = (0..conns.len()).filter(|&i| (conns[i] == Conn::Long && n_entered == n_long) || conns[i] == Conn::BigResponse).collect();
    let until = Instant::now() + Duration::from_secs(5);
    loop {
        let done = owed.iter().all(|&i| parse_responses(&received.lock().unwrap()[i]) == (1, 0));
        if done || Instant::now() > until {
            break;
        }
        std::thread::sleep(Duration::from_millis(5));
    }
    std::thread::sleep(Duration::from_millis(40));
    let mut err = None;
    for (i, c) in conns.iter().enumerate() {
        let out = received.lock().unwrap()[i].clone();
        if *c == Conn::WebSocket {
            continue;
        }
        let (n, leftover) = parse_responses(&out);
        if leftover > 0 {
            err = Some(format!("connection {} ({:?}) received a truncated response", i, c));
        }
        if matches!(c, Conn::Short | Conn::KeepAliveIdle) && n != 1 {
            err = Some(format!("connection {} ({:?}) sent a complete request before the signal and got {} responses", i, c, n));
        }
        if owed.contains(&i) && n != 1 && leftover == 0 {
            err = Some(format!("connection {} ({:?}): a request that was being handled at the signal got {} responses", i, c, n));
        }
    }
    drop(socks);
    rt.shutdown_background();
    match err {
        Some(e) => Err(e),
        None => Ok(format!("returned after {} ms", at.duration_since(sent).as_millis())),
    }
}

pub fn run(quick: bool) -> Stats {
    let mut st = Stats::default();
    let kinds = [Conn::JustConnected, Conn::HalfRequest, Conn::Short, Conn::KeepAliveIdle, Conn::Long, Conn::WebSocket, Conn::BigResponse];
    let mut scns: Vec<(&str, Vec<Conn>)> = vec![("127.0.0.1", vec![]), ("0.0.0.0", vec![]), ("::", vec![])];
    for k in kinds {
        scns.push(("127.0.0.1", vec![k]));
    }
    scns.push(("127.0.0.1", vec![Conn::ResetStorm]));
    scns.push(("127.0.0.1", vec![Conn::ResetStorm, Conn::Short]));
    scns.push(("127.0.0.1", vec![Conn::DeniedSilent]));
    scns.push(("0.0.0.0", vec![Conn::DeniedSilent, Conn::KeepAliveIdle]));
    for a in kinds {
        for b in kinds {
            if quick && a != b && !(a == Conn::Long || b == Conn::Short) {
                continue;
            }
            scns.push(("0.0.0.0", vec![a, b]));
        }
    }
    if !quick {
        for a in kinds {
            for b in kinds {
                for c in kinds {
                    scns.push(("127.0.0.1", vec![a, b, c]));
                }
            }
        }
    }
    use rayon::prelude::*;
    let pool = rayon::ThreadPoolBuilder::new().num_threads(8).build().unwrap();
    let results: Vec<(String, Result<String, String>)> = pool.install(|| scns.par_iter().map(|(ip, c)| (format!("tokio bind={} conns={:?}", ip, c), replay(ip, c))).collect());
    for (name, r) in results {
        st.evaluations += 1;
        st.states += 1;
        st.transitions += 1;
        st.nontrivial += 1;
        st.traces_validated += 1;
        match r {
            Ok(_) => st.outcome("tokio: run returned, port free, nothing truncated"),
            Err(e) => st.violation(format!("[tokio] {}", e.split("): ").last().unwrap_or("").split(':').next().unwrap_or("").chars().map(|c| if c.is_ascii_digit() { '#' } else { c }).collect::<String>()), || json!({"scenario": name, "what": e})),
        }
    }
    st.count("tokio traffic states replayed", scns.len() as u64);
    st
}
