//! Evidence, violation bookkeeping, known findings, exit codes (DESIGN.md §2.8/§2.9).
//!
//! Exit codes of every check: 0 = held on everything explored (known findings are
//! printed as `KNOWN-FINDING:` lines), 1 = at least one violation whose signature is
//! not listed in /verif/known_findings.json, >=2 = machinery failure (never a verdict).

use serde_json::{json, Map, Value};
use std::collections::{BTreeMap, BTreeSet};
use std::path::PathBuf;
use std::time::Instant;

#[derive(Clone, Copy, PartialEq, Eq, Debug)]
pub enum Tier {
    Quick,
    Thorough,
}

pub fn root() -> PathBuf {
    PathBuf::from(std::env::var("HV_ROOT").unwrap_or_else(|_| "/verif".to_string()))
}

/// Mergeable counters; worker threads fill a private `Stats` and merge it at the end.
#[derive(Default, Clone)]
pub struct Stats {
    /// cases generated / executions run
    pub evaluations: u64,
    /// distinct cases that reached the code path the property is about (rule in evidence)
    pub nontrivial: u64,
    /// distinct canonical states / outcome signatures / distinct inputs (per check, see rule)
    pub states: u64,
    /// operations / decision points / real function calls executed
    pub transitions: u64,
    /// explored traces re-run free of the explorer against the real environment
    pub traces_validated: u64,
    /// distinct observed outcome classes (non-vacuity)
    pub outcomes: BTreeMap<String, u64>,
    /// violations by signature: (count, first detail)
    pub violations: BTreeMap<String, (u64, Value)>,
    pub samples: Vec<Value>,
    pub caps: Vec<String>,
    pub counters: BTreeMap<String, u64>,
}

pub const MAX_SAMPLES: usize = 8;

impl Stats {
    /// for passing partial results from worker processes to the driver
    pub fn to_json(&self) -> Value {
        json!({
            "evaluations": self.evaluations, "nontrivial": self.nontrivial, "states": self.states, "transitions": self.transitions,
            "traces_validated": self.traces_validated, "outcomes": self.outcomes, "samples": self.samples, "caps": self.caps, "counters": self.counters,
            "violations": self.violations.iter().map(|(k, (n, d))| json!([k, n, d])).collect::<Vec<_>>(),
        })
    }
    pub fn from_json(v: &Value) -> Stats {
        let mut s = Stats::default();
        let u = |k: &str| v[k].as_u64().unwrap_or(0);
        s.evaluations = u("evaluations");
        s.nontrivial = u("nontrivial");
        s.states = u("states");
        s.transitions = u("transitions");
        s.traces_validated = u("traces_validated");
        if let Some(o) = v["outcomes"].as_object() {
            for (k, n) in o {
                s.outcomes.insert(k.clone(), n.as_u64().unwrap_or(0));
            }
        }
        if let Some(o) = v["counters"].as_object() {
            for (k, n) in o {
                s.counters.insert(k.clone(), n.as_u64().unwrap_or(0));
            }
        }
        if let Some(a) = v["samples"].as_array() {
            s.samples = a.clone();
        }
        if let Some(a) = v["caps"].as_array() {
            s.caps = a.iter().filter_map(|x| x.as_str().map(|y| y.to_string())).collect();
        }
        if let Some(a) = v["violations"].as_array() {
            for e in a {
                s.violations.insert(e[0].as_str().unwrap_or("").to_string(), (e[1].as_u64().unwrap_or(1), e[2].clone()));
            }
        }
        s
    }
}

impl Stats {
    pub fn merge(&mut self, o: Stats) {
        self.evaluations += o.evaluations;
        self.nontrivial += o.nontrivial;
        self.states += o.states;
        self.transitions += o.transitions;
        self.traces_validated += o.traces_validated;
        for (k, v) in o.outcomes {
            *self.outcomes.entry(k).or_insert(0) += v;
        }
        for (k, (n, d)) in o.violations {
            let e = self.violations.entry(k).or_insert((0, d));
            e.0 += n;
        }
        for s in o.samples {
            if self.samples.len() < MAX_SAMPLES {
                self.samples.push(s);
            }
        }
        for c in o.caps {
            if !self.caps.contains(&c) {
                self.caps.push(c);
            }
        }
        for (k, v) in o.counters {
            *self.counters.entry(k).or_insert(0) += v;
        }
    }
    pub fn violation(&mut self, sig: impl Into<String>, detail: impl FnOnce() -> Value) {
        let sig = sig.into();
        match self.violations.get_mut(&sig) {
            Some(e) => e.0 += 1,
            None => {
                self.violations.insert(sig, (1, detail()));
            }
        }
    }
    pub fn outcome(&mut self, k: impl Into<String>) {
        *self.outcomes.entry(k.into()).or_insert(0) += 1;
    }
    pub fn count(&mut self, k: &str, n: u64) {
        *self.counters.entry(k.to_string()).or_insert(0) += n;
    }
    pub fn sample(&mut self, v: impl FnOnce() -> Value) {
        if self.samples.len() < MAX_SAMPLES {
            self.samples.push(v());
        }
    }
}

pub struct Ctx {
    pub id: String,
    pub tier: Tier,
    pub seed: u64,
    pub t0: Instant,
    pub stats: Stats,
    pub rule: String,
    pub assumptions: Vec<String>,
    pub bounds: Map<String, Value>,
    pub exhaustive: bool,
    pub extra: Map<String, Value>,
}

impl Ctx {
    pub fn new(id: &str, tier: Tier) -> Ctx {
        let seed = std::env::var("VERIF_SEED").ok().and_then(|s| s.parse().ok()).unwrap_or(0);
        start_hang_watchdog(id.to_string(), tier, seed);
        Ctx {
            id: id.to_string(),
            tier,
            seed,
            t0: Instant::now(),
            stats: Stats::default(),
            rule: String::new(),
            assumptions: vec![],
            bounds: Map::new(),
            exhaustive: true,
            extra: Map::new(),
        }
    }
    pub fn quick(&self) -> bool {
        self.tier == Tier::Quick
    }
    pub fn pick<T>(&self, q: T, t: T) -> T {
        if self.quick() {
            q
        } else {
            t
        }
    }
    pub fn bound(&mut self, k: &str, v: impl Into<Value>) {
        self.bounds.insert(k.to_string(), v.into());
    }
    pub fn assume(&mut self, s: &str) {
        self.assumptions.push(s.to_string());
    }
    pub fn cap(&mut self, s: impl Into<String>) {
        self.exhaustive = false;
        self.stats.caps.push(s.into());
    }

    /// Writes evidence + replays, prints KNOWN-FINDING / VIOLATION lines, exits.
    pub fn finish(mut self) -> ! {
        let root = root();
        let known = load_known(&root, &self.id);
        let mut unlisted = 0u64;
        let mut known_hit = 0u64;
        let replay_dir = root.join("replays").join(&self.id);
        let mut vio_list = vec![];
        let mut n = 0;
        let mut seen_known = BTreeSet::new();
        for (sig, (count, detail)) in &self.stats.violations {
            if let Some(what) = known.get(sig) {
                known_hit += 1;
                seen_known.insert(sig.clone());
                println!("KNOWN-FINDING: property={} {} [signature={} cases={}]", self.id, what, sig, count);
                vio_list.push(json!({"signature": sig, "cases": count, "known_finding": true}));
            } else {
                unlisted += 1;
                n += 1;
                let _ = std::fs::create_dir_all(&replay_dir);
                let path = replay_dir.join(format!("{}.json", n));
                let body = json!({"property": self.id, "signature": sig, "cases": count, "case": detail});
                let _ = std::fs::write(&path, serde_json::to_string_pretty(&body).unwrap());
                println!("VIOLATION property={} replay={}", self.id, path.display());
                println!("  signature={} cases={} first={}", sig, count, truncate(&detail.to_string(), 600));
                vio_list.push(json!({"signature": sig, "cases": count, "known_finding": false, "replay": path.display().to_string()}));
            }
        }
        for (sig, _) in known.iter() {
            if !seen_known.contains(sig) {
                // A listed finding that did not reproduce is not an error for the verdict, but say so.
                println!("note: property={} listed finding not reproduced in this run: {}", self.id, sig);
            }
        }
        let wall = self.t0.elapsed().as_secs_f64();
        if self.stats.samples.is_empty() {
            self.stats.samples.push(json!("(no sample recorded)"));
        }
        let outcomes: Map<String, Value> =
            self.stats.outcomes.iter().take(40).map(|(k, v)| (k.clone(), json!(v))).collect();
        let mut cov = Map::new();
        cov.insert("states".into(), json!(self.stats.states.max(1)));
        cov.insert("transitions".into(), json!(self.stats.transitions.max(1)));
        cov.insert("traces_validated_against_impl".into(), json!(self.stats.traces_validated));
        cov.insert("evaluations".into(), json!(self.stats.evaluations));
        cov.insert("distinct_nontrivial".into(), json!(self.stats.nontrivial));
        cov.insert("rule".into(), json!(self.rule));
        cov.insert("samples".into(), Value::Array(self.stats.samples.clone()));
        cov.insert("exhaustive".into(), json!(self.exhaustive && self.stats.caps.is_empty()));
        cov.insert("bounds".into(), Value::Object(self.bounds.clone()));
        cov.insert("caps_hit".into(), json!(self.stats.caps));
        cov.insert("distinct_outcomes".into(), json!(self.stats.outcomes.len()));
        cov.insert("outcome_histogram".into(), Value::Object(outcomes));
        cov.insert(
            "counters".into(),
            Value::Object(self.stats.counters.iter().map(|(k, v)| (k.clone(), json!(v))).collect()),
        );
        cov.insert("violation_signatures".into(), Value::Array(vio_list));
        cov.insert("known_findings_reproduced".into(), json!(known_hit));
        for (k, v) in self.extra.iter() {
            cov.insert(k.clone(), v.clone());
        }
        let ev = json!({
            "property_id": self.id,
            "tier": if self.tier == Tier::Quick { "quick" } else { "thorough" },
            "seed": self.seed,
            "level": "model_checking",
            "coverage": Value::Object(cov),
            "assumptions": self.assumptions,
            "wall_s": wall,
            "violations": unlisted,
        });
        let evdir = root.join("evidence");
        let _ = std::fs::create_dir_all(&evdir);
        let evpath = evdir.join(format!("{}.json", self.id));
        if let Err(e) = std::fs::write(&evpath, serde_json::to_string_pretty(&ev).unwrap()) {
            eprintln!("machinery: cannot write evidence {}: {}", evpath.display(), e);
            std::process::exit(3);
        }
        println!(
            "{} {}: evaluations={} states={} transitions={} nontrivial={} outcomes={} violations(unlisted)={} known={} wall={:.1}s exhaustive={}",
            self.id,
            if self.tier == Tier::Quick { "quick" } else { "thorough" },
            self.stats.evaluations,
            self.stats.states,
            self.stats.transitions,
            self.stats.nontrivial,
            self.stats.outcomes.len(),
            unlisted,
            known_hit,
            wall,
            self.exhaustive && self.stats.caps.is_empty()
        );
        std::process::exit(if unlisted > 0 { 1 } else { 0 });
    }
}

// ---------------- hang watchdog ----------------
// A call into the subject that never returns (a change that makes a loop infinite) must become a verdict
// with the offending input, not a check that never ends. Checks bracket each call with `enter(bytes)`;
// a watchdog thread reports the first call that has not returned after HANG_LIMIT_S seconds.

pub const HANG_LIMIT_S: u64 = 90;

pub struct Slot {
    since_ms: std::sync::atomic::AtomicU64,
    len: std::sync::atomic::AtomicUsize,
    buf: std::cell::UnsafeCell<[u8; 160]>,
}
unsafe impl Sync for Slot {}

static SLOTS: std::sync::Mutex<Vec<&'static Slot>> = std::sync::Mutex::new(Vec::new());
static NOW_MS: std::sync::atomic::AtomicU64 = std::sync::atomic::AtomicU64::new(0);

thread_local! {
    static MY_SLOT: &'static Slot = {
        let s: &'static Slot = Box::leak(Box::new(Slot { since_ms: 0.into(), len: 0.into(), buf: std::cell::UnsafeCell::new([0; 160]) }));
        SLOTS.lock().unwrap().push(s);
        s
    };
}

pub struct InCall(std::marker::PhantomData<*const ()>);

/// Marks the start of one call into the subject on this thread; `what` (its first 160 bytes) is what the
/// watchdog reports if the call never returns. Dropping the guard marks the return.
#[inline]
pub fn enter(what: &[u8]) -> InCall {
    use std::sync::atomic::Ordering::Relaxed;
    MY_SLOT.with(|s| {
        let n = what.len().min(160);
        unsafe { std::ptr::copy_nonoverlapping(what.as_ptr(), s.buf.get() as *mut u8, n) };
        s.len.store(n, Relaxed);
        s.since_ms.store(NOW_MS.load(Relaxed).max(1), Relaxed);
    });
    InCall(std::marker::PhantomData)
}

impl Drop for InCall {
    #[inline]
    fn drop(&mut self) {
        MY_SLOT.with(|s| s.since_ms.store(0, std::sync::atomic::Ordering::Relaxed));
    }
}

/// The watchdog of the tokio twins: the hang becomes a violation in the RESULT line the main binary merges.
pub fn start_hang_watchdog_twin(rt: &'static str) {
    start_watchdog(Box::new(move |case: Value, _secs: f64| {
        let mut st = Stats::default();
        st.evaluations = 1;
        st.violation(format!("[{}] a call into the code under check did not return (hang)", rt), || case.clone());
        st.caps.push("hang: the enumeration was abandoned at the first call that did not return".into());
        println!("RESULT {}", st.to_json());
        std::process::exit(0);
    }));
}

fn start_hang_watchdog(id: String, tier: Tier, seed: u64) {
    start_watchdog(Box::new(move |case: Value, wall: f64| {
        let root = root();
        let dir = root.join("replays").join(&id);
        let _ = std::fs::create_dir_all(&dir);
        let path = dir.join("hang.json");
        let sig = "a call into the code under check did not return (hang)";
        let _ = std::fs::write(&path, serde_json::to_string_pretty(&json!({"property": id, "signature": sig, "cases": 1, "case": case})).unwrap());
        println!("VIOLATION property={} replay={}", id, path.display());
        println!("  signature={} cases=1 first={}", sig, case);
        let ev = json!({
            "property_id": id, "tier": if tier == Tier::Quick { "quick" } else { "thorough" }, "seed": seed, "level": "model_checking",
            "coverage": {"states": 1, "transitions": 1, "traces_validated_against_impl": 0, "evaluations": 1, "distinct_nontrivial": 1,
                "rule": "the run was cut short: one call into the code under check did not return", "samples": [case], "exhaustive": false,
                "caps_hit": ["hang: the enumeration was abandoned at the first call that did not return"], "violation_signatures": [{"signature": sig, "cases": 1, "known_finding": false, "replay": path.display().to_string()}]},
            "assumptions": [], "wall_s": wall, "violations": 1,
        });
        let _ = std::fs::create_dir_all(root.join("evidence"));
        let _ = std::fs::write(root.join("evidence").join(format!("{}.json", id)), serde_json::to_string_pretty(&ev).unwrap());
        std::process::exit(1);
    }));
}

fn start_watchdog(on_hang: Box<dyn Fn(Value, f64) + Send>) {
    use std::sync::atomic::Ordering::Relaxed;
    let t0 = Instant::now();
    let limit_ms = std::env::var("HV_HANG_LIMIT_S").ok().and_then(|v| v.parse::<u64>().ok()).unwrap_or(HANG_LIMIT_S) * 1000;
    std::thread::Builder::new()
        .name("hang-watchdog".into())
        .spawn(move || loop {
            std::thread::sleep(std::time::Duration::from_millis(100));
            let now = t0.elapsed().as_millis() as u64 + 1;
            NOW_MS.store(now, Relaxed);
            if now % 1000 > 100 {
                continue;
            }
            let slots: Vec<&'static Slot> = SLOTS.lock().unwrap().clone();
            if std::env::var("HV_HANG_DEBUG").is_ok() {
                eprintln!("watchdog: now={} slots={} busy={:?}", now, slots.len(), slots.iter().map(|s| s.since_ms.load(Relaxed)).filter(|x| *x != 0).collect::<Vec<_>>());
            }
            for s in slots {
                let since = s.since_ms.load(Relaxed);
                if since != 0 && now.saturating_sub(since) > limit_ms {
                    let n = s.len.load(Relaxed).min(160);
                    let what: Vec<u8> = unsafe { std::slice::from_raw_parts(s.buf.get() as *const u8, n).to_vec() };
                    let case = json!({"input_head": show(&what), "seconds_without_return": (now - since) / 1000});
                    on_hang(case, t0.elapsed().as_secs_f64());
                    std::process::exit(1);
                }
            }
        })
        .ok();
}

pub fn truncate(s: &str, n: usize) -> String {
    if s.len() <= n {
        s.to_string()
    } else {
        let mut e = n;
        while !s.is_char_boundary(e) {
            e -= 1;
        }
        format!("{}…", &s[..e])
    }
}

/// signature -> description for the `known` entries of this property.
fn load_known(root: &std::path::Path, id: &str) -> BTreeMap<String, String> {
    let mut m = BTreeMap::new();
    let p = root.join("known_findings.json");
    let Ok(txt) = std::fs::read_to_string(&p) else { return m };
    let v: Value = match serde_json::from_str(&txt) {
        Ok(v) => v,
        Err(e) => {
            eprintln!("machinery: known_findings.json does not parse: {}", e);
            std::process::exit(3);
        }
    };
    if let Some(arr) = v.get("known").and_then(|a| a.as_array()) {
        for f in arr {
            if f.get("property").and_then(|s| s.as_str()) == Some(id) {
                if let (Some(sig), Some(what)) =
                    (f.get("signature").and_then(|s| s.as_str()), f.get("what").and_then(|s| s.as_str()))
                {
                    m.insert(sig.to_string(), what.to_string());
                }
            }
        }
    }
    m
}

/// Lossy printable form of bytes for samples and replays.
pub fn show(b: &[u8]) -> String {
    let mut s = String::new();
    for &c in b {
        match c {
            b'\r' => s.push_str("\\r"),
            b'\n' => s.push_str("\\n"),
            b'\\' => s.push_str("\\\\"),
            0x20..=0x7e => s.push(c as char),
            _ => s.push_str(&format!("\\x{:02x}", c)),
        }
    }
    s
}
