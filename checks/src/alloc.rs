//! Counting global allocator for C03 (DESIGN.md §2.4): while tracking is on it records the peak of
//! live bytes allocated since tracking started, and a single request above the hard cap ends the
//! process with exit code 77 after writing the size into the shared progress record (an
//! allocation of a peer-claimed length must be reported without actually being attempted).
use std::alloc::{GlobalAlloc, Layout, System};
use std::sync::atomic::{AtomicBool, AtomicUsize, Ordering};

pub struct Counting;

static TRACK: AtomicBool = AtomicBool::new(false);
static CUR: AtomicUsize = AtomicUsize::new(0);
static PEAK: AtomicUsize = AtomicUsize::new(0);
static HARD_CAP: AtomicUsize = AtomicUsize::new(usize::MAX);
/// address of the two-word progress record (case index, offending size) or 0
pub static PROGRESS: AtomicUsize = AtomicUsize::new(0);

unsafe impl GlobalAlloc for Counting {
    unsafe fn alloc(&self, l: Layout) -> *mut u8 {
        if TRACK.load(Ordering::Relaxed) {
            note(l.size());
        }
        System.alloc(l)
    }
    unsafe fn alloc_zeroed(&self, l: Layout) -> *mut u8 {
        if TRACK.load(Ordering::Relaxed) {
            note(l.size());
        }
        System.alloc_zeroed(l)
    }
    unsafe fn dealloc(&self, p: *mut u8, l: Layout) {
        if TRACK.load(Ordering::Relaxed) {
            let _ = CUR.fetch_update(Ordering::Relaxed, Ordering::Relaxed, |c| Some(c.saturating_sub(l.size())));
        }
        System.dealloc(p, l)
    }
    unsafe fn realloc(&self, p: *mut u8, l: Layout, new: usize) -> *mut u8 {
        if TRACK.load(Ordering::Relaxed) {
            if new > l.size() {
                note(new - l.size());
            } else {
                let _ = CUR.fetch_update(Ordering::Relaxed, Ordering::Relaxed, |c| Some(c.saturating_sub(l.size() - new)));
            }
        }
        System.realloc(p, l, new)
    }
}

#[inline]
fn note(size: usize) {
    if size > HARD_CAP.load(Ordering::Relaxed) {
        let p = PROGRESS.load(Ordering::Relaxed);
        if p != 0 {
            unsafe {
                std::ptr::write_volatile((p as *mut u64).add(1), size as u64);
            }
        }
        unsafe { libc::_exit(77) };
    }
    let c = CUR.fetch_add(size, Ordering::Relaxed) + size;
    PEAK.fetch_max(c, Ordering::Relaxed);
}

pub fn start(hard_cap: usize) {
    CUR.store(0, Ordering::Relaxed);
    PEAK.store(0, Ordering::Relaxed);
    HARD_CAP.store(hard_cap, Ordering::Relaxed);
    TRACK.store(true, Ordering::SeqCst);
}

/// stops tracking, returns the peak of live tracked bytes
pub fn stop() -> usize {
    TRACK.store(false, Ordering::SeqCst);
    HARD_CAP.store(usize::MAX, Ordering::Relaxed);
    PEAK.load(Ordering::Relaxed)
}
