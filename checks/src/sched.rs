//! Engine E1 — stateless depth-first exploration of schedules of the real code running on real
//! OS threads under the controlled scheduler in `humphrey::verif::rt` (DESIGN.md §2.2).
//!
//! The explorer enumerates choice prefixes. An execution follows its prefix and takes choice 0
//! (canonical default: keep running the current thread, else lowest thread id) afterwards. Every
//! alternative at every decision point after the prefix is a child, at a cost:
//!   * `Bound::Preemption`: 1 if the thread that reached the point was still enabled, else 0;
//!   * `Bound::Deviation`: always 1 (every departure from the default scheduler is counted).
//! Children whose accumulated cost exceeds the bound are not generated. Prefixes are processed in
//! order of cost (all cost-0 executions first, then cost 1, ...) so that when a wall-clock or
//! execution cap strikes the highest *completed* bound is known exactly.

use crate::report::Stats;
use humphrey::verif::rt::ExecResult;
use std::sync::atomic::{AtomicBool, AtomicU64, Ordering};
use std::sync::Mutex;
use std::time::{Duration, Instant};

#[derive(Clone, Copy, Debug, PartialEq)]
pub enum Bound {
    Preemption(usize),
    Deviation(usize),
}

#[derive(Clone, Debug)]
pub struct Cfg {
    pub bound: Bound,
    pub max_steps: usize,
    pub max_execs: u64,
    pub wall: Duration,
    pub workers: usize,
    /// re-run every n-th execution with its full choice list and require an identical trace
    pub recheck_every: u64,
}

impl Cfg {
    pub fn new(bound: Bound) -> Cfg {
        Cfg {
            bound,
            max_steps: 20_000,
            max_execs: u64::MAX,
            wall: Duration::from_secs(3600),
            workers: std::thread::available_parallelism().map(|n| n.get()).unwrap_or(8),
            recheck_every: 97,
        }
    }
}

#[derive(Default, Debug, Clone)]
pub struct Out {
    pub execs: u64,
    pub decision_points: u64,
    pub max_points: usize,
    pub max_threads: usize,
    /// highest bound for which every execution was run (None if even bound 0 was cut short)
    pub completed_bound: Option<usize>,
    pub capped: bool,
    pub rechecked: u64,
    pub machinery_errors: Vec<String>,
}

struct Work {
    /// one stack of prefixes per cost level
    levels: Vec<Vec<Vec<usize>>>,
    in_flight: usize,
}

pub fn explore<O: Send>(
    cfg: &Cfg,
    run: &(dyn Fn(Vec<usize>) -> (ExecResult, O) + Sync),
    check: &(dyn Fn(&ExecResult, &O, &[usize], &mut Stats) + Sync),
    stats: &mut Stats,
) -> Out {
    let (limit, dev) = match cfg.bound {
        Bound::Preemption(b) => (b, false),
        Bound::Deviation(b) => (b, true),
    };
    let work = Mutex::new(Work { levels: (0..=limit).map(|_| vec![]).collect(), in_flight: 0 });
    work.lock().unwrap().levels[0].push(vec![]);
    let execs = AtomicU64::new(0);
    let points = AtomicU64::new(0);
    let rechecked = AtomicU64::new(0);
    let stop = AtomicBool::new(false);
    let t0 = Instant::now();
    let merged = Mutex::new((Stats::default(), 0usize, 0usize, Vec::<String>::new()));
    // lowest level that was cut short by a cap (usize::MAX = none)
    let cut_level = Mutex::new(usize::MAX);

    std::thread::scope(|sc| {
        for _ in 0..cfg.workers.max(1) {
            sc.spawn(|| {
                let mut local = Stats::default();
                let mut max_points = 0usize;
                let mut max_threads = 0usize;
                let mut errs: Vec<String> = vec![];
                loop {
                    // take the lowest-cost pending prefix
                    let job = {
                        let mut w = work.lock().unwrap();
                        let mut found = None;
                        for (lvl, st) in w.levels.iter_mut().enumerate() {
                            if let Some(p) = st.pop() {
                                found = Some((lvl, p));
                                break;
                            }
                        }
                        match found {
                            Some(j) => {
                                w.in_flight += 1;
                                Some(j)
                            }
                            None => {
                                if w.in_flight == 0 {
                                    None
                                } else {
                                    drop(w);
                                    std::thread::yield_now();
                                    continue;
                                }
                            }
                        }
                    };
                    let Some((lvl, prefix)) = job else { break };
                    if stop.load(Ordering::Relaxed) || t0.elapsed() > cfg.wall || execs.load(Ordering::Relaxed) >= cfg.max_execs {
                        stop.store(true, Ordering::Relaxed);
                        let mut c = cut_level.lock().unwrap();
                        *c = (*c).min(lvl);
                        work.lock().unwrap().in_flight -= 1;
                        continue; // drain the queue, recording the lowest cut level
                    }
                    let plen = prefix.len();
                    let (r, obs) = run(prefix.clone());
                    let n = execs.fetch_add(1, Ordering::Relaxed) + 1;
                    points.fetch_add(r.points.len() as u64, Ordering::Relaxed);
                    max_points = max_points.max(r.points.len());
                    max_threads = max_threads.max(r.threads);
                    let choices: Vec<usize> = r.points.iter().map(|p| p.chosen).collect();
                    if r.diverged {
                        errs.push(format!("replay divergence: prefix {:?} not applicable (points {:?})", prefix, choices));
                    } else if choices.len() < plen || choices[..plen] != prefix[..] {
                        errs.push(format!("execution did not follow its prefix: {:?} vs {:?}", prefix, choices));
                    } else {
                        check(&r, &obs, &choices, &mut local);
                        if cfg.recheck_every > 0 && n % cfg.recheck_every == 0 {
                            let (r2, _) = run(choices.clone());
                            rechecked.fetch_add(1, Ordering::Relaxed);
                            if r2.trace_hash != r.trace_hash || r2.points.len() != r.points.len() {
                                errs.push(format!("non-deterministic replay of schedule {:?}", choices));
                            }
                        }
                        // children
                        let mut cost = lvl;
                        // cost of the prefix part is `lvl` by construction; walk the tail
                        let mut kids: Vec<(usize, Vec<usize>)> = vec![];
                        // an execution that ran into the step horizon (a loop that never blocks) is a verdict for
                        // the check already; expanding its tens of thousands of decision points would only exhaust memory
                        let expand_to = if r.step_cap_hit { plen } else { r.points.len() };
                        for i in plen..expand_to {
                            let p = &r.points[i];
                            let step = if dev || p.running_enabled { 1 } else { 0 };
                            if cost + step <= limit {
                                for alt in 1..p.enabled.len() {
                                    let mut np = choices[..i].to_vec();
                                    np.push(alt);
                                    kids.push((cost + step, np));
                                }
                            }
                            // the default continuation took choice 0 here: no extra cost
                            let _ = &mut cost;
                        }
                        if !kids.is_empty() {
                            let mut w = work.lock().unwrap();
                            for (c, p) in kids {
                                w.levels[c].push(p);
                            }
                        }
                    }
                    work.lock().unwrap().in_flight -= 1;
                }
                let mut m = merged.lock().unwrap();
                m.0.merge(local);
                m.1 = m.1.max(max_points);
                m.2 = m.2.max(max_threads);
                m.3.extend(errs);
            });
        }
    });
    let (st, max_points, max_threads, errs) = merged.into_inner().unwrap();
    stats.merge(st);
    let cut = *cut_level.lock().unwrap();
    let completed = if cut == usize::MAX {
        Some(limit)
    } else if cut == 0 {
        None
    } else {
        Some(cut - 1)
    };
    Out {
        execs: execs.load(Ordering::Relaxed),
        decision_points: points.load(Ordering::Relaxed),
        max_points,
        max_threads,
        completed_bound: completed,
        capped: cut != usize::MAX,
        rechecked: rechecked.load(Ordering::Relaxed),
        machinery_errors: errs,
    }
}

/// Stops the whole check with a machinery exit code if the explorer itself misbehaved.
pub fn die_on_machinery(out: &Out, what: &str) {
    if !out.machinery_errors.is_empty() {
        eprintln!("MACHINERY ERROR in {}: {}", what, out.machinery_errors[0]);
        eprintln!("({} such errors) — no verdict", out.machinery_errors.len());
        std::process::exit(3);
    }
}
