//! C06 — static handlers never leave their directory and serve what is inside it intact.
//! Exhaustive over request paths composed from a segment menu (dot segments, encodings, NUL,
//! absolute components, names with spaces/unicode/dots) x directory trees x route prefixes, against
//! a reference resolver, with canary files outside the root (DESIGN.md §3 C06).

use crate::props::c09::state_from;
use crate::report::{show, Ctx, Stats};
use humphrey::handlers::{serve_as_file_path, serve_dir};
use humphrey::http::address::Address;
use humphrey::http::headers::Headers;
use humphrey::http::method::Method;
use humphrey::http::{Request, Response};
use humphrey_server::r#static::directory_handler;
use rayon::prelude::*;
use serde_json::json;
use std::path::{Path, PathBuf};
use std::sync::Arc;

const CANARY: &[u8] = b"CANARY-OUTSIDE-THE-ROOT";

/// (relative path, content) of the full tree; subsets are taken by index mask
pub const MENU: [(&str, &[u8]); 9] = [
    ("a.txt", b"content of a.txt"),
    ("b", b"no extension"),
    ("c.tar.gz", b"\x1f\x8b multi-dot"),
    ("sp ace.html", b"<p>space</p>"),
    ("\u{fc}.css", b"u-umlaut {}"),
    ("d/index.html", b"<index d>"),
    ("e/index.htm", b"<index e htm>"),
    ("f/.keep", b"keep"),
    ("d/x.js", b"js();"),
];

pub fn make_tree(base: &Path, mask: u32) -> PathBuf {
    let _ = std::fs::remove_dir_all(base);
    let root = base.join("parent").join("root");
    std::fs::create_dir_all(&root).unwrap();
    std::fs::write(base.join("parent").join("canary.txt"), CANARY).unwrap();
    std::fs::write(base.join("canary.txt"), CANARY).unwrap();
    std::fs::write(base.join("parent").join("rootx"), CANARY).unwrap();
    for (i, (p, c)) in MENU.iter().enumerate() {
        if mask & (1 << i) != 0 {
            let f = root.join(p);
            std::fs::create_dir_all(f.parent().unwrap()).unwrap();
            std::fs::write(f, c).unwrap();
        }
    }
    root
}

fn request(uri: &str) -> Request {
    Request { method: Method::Get, uri: uri.to_string(), query: String::new(), version: "HTTP/1.1".into(), headers: Headers::new(), content: None, address: Address::new("127.0.0.1:1").unwrap() }
}

fn pct_decode(s: &str) -> Option<Vec<u8>> {
    crate::props::c18::ref_pct_decode(s.as_bytes())
}

#[derive(Debug, PartialEq, Clone)]
pub enum Want {
    /// exactly this file
    File(PathBuf),
    Redirect(String),
    NotFound,
    /// the statement only demands that nothing outside the root is returned
    AnythingInside,
}

fn ctype(p: &Path) -> Option<&'static str> {
    match p.extension().and_then(|e| e.to_str()) {
        Some("html") | Some("htm") => Some("text/html"),
        Some("css") => Some("text/css"),
        Some("js") => Some("text/javascript"),
        Some("txt") => Some("text/plain"),
        _ => None,
    }
}

/// reference for serve_dir and the server's directory routes: `rest` is the path after the route prefix
pub fn resolve_dir(root: &Path, rest: &str, full_uri: &str) -> Want {
    let Some(dec) = pct_decode(rest) else { return Want::NotFound };
    let Ok(dec) = String::from_utf8(dec) else { return Want::NotFound };
    if dec.contains("..") || dec.contains(':') {
        return Want::NotFound;
    }
    if dec.contains('\0') {
        return Want::NotFound;
    }
    let rel = dec.trim_start_matches('/');
    if rel.is_empty() || rel.ends_with('/') {
        for idx in ["index.html", "index.htm"] {
            let p = root.join(format!("{}{}", rel, idx));
            if p.is_file() {
                return Want::File(p);
            }
        }
        return Want::NotFound;
    }
    let p = root.join(rel);
    if p.is_file() {
        Want::File(p)
    } else if p.is_dir() {
        Want::Redirect(format!("{}/", full_uri))
    } else {
        Want::NotFound
    }
}

/// reference for serve_as_file_path (no decoding)
pub fn resolve_literal(root: &Path, uri: &str) -> Want {
    if uri.contains("..") {
        return Want::AnythingInside;
    }
    if uri.contains('\0') {
        return Want::NotFound;
    }
    let rel = uri.strip_prefix('/').unwrap_or(uri);
    let p = PathBuf::from(format!("{}/{}", root.display(), rel));
    if p.is_file() && !uri.contains(':') {
        Want::File(p)
    } else if p.is_file() {
        Want::AnythingInside
    } else {
        Want::NotFound
    }
}

fn judge(s: &mut Stats, handler: &str, tree: u32, uri: &str, want: &Want, resp: std::thread::Result<Response>) {
    s.evaluations += 1;
    s.transitions += 1;
    let ctx = |what: String, r: Option<&Response>| {
        json!({"handler": handler, "tree_mask": tree, "uri": uri, "what": what, "expected": format!("{:?}", want), "status": r.map(|r| u16::from(r.status_code)), "body": r.map(|r| show(&r.body[..r.body.len().min(60)]))})
    };
    let r = match resp {
        Ok(r) => r,
        Err(_) => {
            s.violation(format!("[{}] handler panicked", handler), || ctx("panic".into(), None));
            return;
        }
    };
    if r.body.windows(6).any(|w| w == b"CANARY") {
        s.violation(format!("[{}] a file outside the directory was served", handler), || ctx("canary marker in the body".into(), Some(&r)));
        return;
    }
    let status = u16::from(r.status_code);
    match want {
        Want::AnythingInside => s.outcome("unspecified-but-inside"),
        Want::NotFound => {
            if status == 200 {
                s.violation(format!("[{}] content served for a path that names no file in the directory", handler), || ctx("200".into(), Some(&r)));
            } else {
                s.outcome("not-found");
            }
        }
        Want::Redirect(loc) => {
            if status != 301 || r.headers.get("Location") != Some(loc.as_str()) {
                s.violation(format!("[{}] a directory path without trailing slash is not redirected to the slash form", handler), || ctx(format!("Location {:?}", r.headers.get("Location")), Some(&r)));
            } else {
                s.outcome("redirect");
            }
        }
        Want::File(p) => {
            let bytes = std::fs::read(p).unwrap_or_default();
            if status != 200 || r.body != bytes {
                let class = if status == 200 { "the wrong file's bytes were served" } else { "a file inside the directory is not served by its own path" };
                s.violation(format!("[{}] {}", handler, class), || ctx(format!("expected {} bytes of {:?}", bytes.len(), p.file_name()), Some(&r)));
                return;
            }
            if let Some(ct) = ctype(p) {
                if r.headers.get("Content-Type").map(|v| v.split(';').next().unwrap_or("").trim()) != Some(ct) {
                    s.violation(format!("[{}] wrong Content-Type for the file's extension", handler), || ctx(format!("{:?} expected {}", r.headers.get("Content-Type"), ct), Some(&r)));
                    return;
                }
            }
            s.outcome("file");
        }
    }
}

pub const SEGS: [&str; 24] = [
    "a.txt", "b", "c.tar.gz", "sp ace.html", "\u{fc}.css", "d", "e", "f", "index.html", "x.js", ".", "..", "...", "", "%2e%2e", "%2E.", ".%2e", "%2f", "%5c", "%00", "%252e%252e", "%c0%ae", "..%2f", "C:",
];

fn encode_all(seg: &str) -> String {
    seg.bytes().map(|b| format!("%{:02X}", b)).collect()
}

fn paths(depth: usize) -> Vec<String> {
    let mut out = vec!["/".to_string(), "".to_string()];
    let mut frontier: Vec<String> = vec!["".into()];
    for _ in 0..depth {
        let mut next = vec![];
        for f in &frontier {
            for s in SEGS {
                next.push(format!("{}/{}", f, s));
            }
        }
        for p in &next {
            out.push(p.clone());
            out.push(format!("{}/", p));
        }
        frontier = next;
    }
    // absolute components and the sibling whose name extends the root's
    for extra in ["//etc/passwd", "/etc/passwd", "/../rootx", "/..%2frootx", "/%2e%2e/canary.txt", "/../canary.txt", "/../../canary.txt", "/d/../../canary.txt", "/d/..%2f..%2fcanary.txt", "/.%2e/canary.txt", "/%2e%2e%2fcanary.txt", "/..\\canary.txt", "/d/%2e%2e/%2e%2e/canary.txt", "/%252e%252e/canary.txt", "/%c0%ae%c0%ae/canary.txt", "/\0/../canary.txt"] {
        out.push(extra.to_string());
    }
    out
}

pub fn run(mut cx: Ctx) -> ! {
    cx.rule = "every request path of <= 2 (3) segments over a 24-segment menu (file and directory names incl. spaces, unicode and multi-dot, `.`, `..`, `...`, empty, %2e%2e, %2E., .%2e, %2f, %5c, %00, %252e%252e, overlong %c0%ae, ..%2f, C:), with and without trailing slash, as written and fully percent-encoded, plus absolute and sibling-prefix traversal paths, is given to serve_dir (3 route prefixes), serve_as_file_path and the server's directory_handler (cache off and on) for 12 (40) directory trees with canary files next to and above the root; a reference resolver decides file / 301 / 404, and no response may contain canary bytes; states = (tree, path) pairs, transitions = handler calls; non-trivial = paths the reference resolves to a file or redirect, or that contain a dot-dot in any spelling".into();
    let quick = cx.quick();
    let depth = cx.pick(3, 4);
    let masks: Vec<u32> = if quick { vec![0x1ff, 0x000, 0x001, 0x020, 0x040, 0x080, 0x160, 0x01f, 0x1e0, 0x0a5, 0x15a, 0x121] } else { (0..40).map(|i| (i * 37 + 0x1ff * (i % 2)) as u32 & 0x1ff).chain([0x1ff, 0]).collect() };
    cx.bound("path_segments", depth);
    cx.bound("trees", masks.len());
    let ps = paths(depth);
    cx.bound("paths_per_tree", ps.len() * 2);
    let base0 = crate::report::root().join(".target").join("scratch").join(format!("c06-{}", std::process::id()));
    let part = masks
        .par_iter()
        .fold(Stats::default, |mut s, &mask| {
            let base = base0.join(format!("t{:03x}", mask));
            let root = make_tree(&base, mask);
            let root_s: &'static str = Box::leak(root.to_str().unwrap().to_string().into_boxed_str());
            let root_slash: &'static str = Box::leak(format!("{}/", root_s).into_boxed_str());
            let h_dir = serve_dir::<()>(root_s);
            let h_dir_slash = serve_dir::<()>(root_slash);
            let h_lit = serve_as_file_path::<()>(root_s);
            let st_off = state_from("server {\n  log {\n    console false\n  }\n}");
            let st_on = state_from("server {\n  log {\n    console false\n  }\n  cache {\n    size 65536\n    time 60\n  }\n}");
            for p in &ps {
                let spellings = [p.clone(), p.split('/').map(encode_all).collect::<Vec<_>>().join("/")];
                for (si, uri) in spellings.iter().enumerate() {
                    s.states += 1;
                    let interesting = uri.contains("..") || uri.to_ascii_lowercase().contains("%2e") || uri.contains("%c0");
                    // serve_dir under three route shapes
                    for (route, prefix) in [("/*", ""), ("/s/*", "/s"), ("/s", "/s")] {
                        let full = format!("{}{}", prefix, uri);
                        let rest = if route == "/*" { full.strip_prefix('/').map(|x| format!("/{}", x)).unwrap_or(full.clone()) } else { full.strip_prefix("/s").unwrap_or(&full).to_string() };
                        // the handler strips the route (minus its `*`); mirror that exactly for the reference
                        let stripped = full.strip_prefix(route.strip_suffix('*').unwrap_or(route)).unwrap_or(&full).to_string();
                        let _ = rest;
                        let want = resolve_dir(&root, &stripped, &full);
                        if matches!(want, Want::File(_) | Want::Redirect(_)) || interesting {
                            s.nontrivial += 1;
                        }
                        let h = if route == "/s" { &h_dir_slash } else { &h_dir };
                        let r = std::panic::catch_unwind(std::panic::AssertUnwindSafe(|| h(request(&full), Arc::new(()), route)));
                        judge(&mut s, "serve_dir", mask, &full, &want, r);
                    }
                    // serve_as_file_path
                    let want = resolve_literal(&root, uri);
                    let r = std::panic::catch_unwind(std::panic::AssertUnwindSafe(|| h_lit(request(uri), Arc::new(()))));
                    judge(&mut s, "serve_as_file_path", mask, uri, &want, r);
                    // the server's directory route, cache off / on (the second call may be served from the cache)
                    if si == 0 || p.len() < 24 {
                        let full = format!("/s{}", uri);
                        let want = resolve_dir(&root, uri, &full);
                        for (state, name) in [(&st_off, "directory route"), (&st_on, "directory route (cache on)"), (&st_on, "directory route (cache on, repeated)")] {
                            let r = std::panic::catch_unwind(std::panic::AssertUnwindSafe(|| directory_handler(request(&full), state.clone(), root_s, "/s*", 0)));
                            judge(&mut s, name, mask, &full, &want, r);
                        }
                    }
                }
            }
            let _ = std::fs::remove_dir_all(&base);
            s.sample(|| json!({"tree_mask": mask, "example_paths": ps.iter().skip(40).step_by(977).take(4).collect::<Vec<_>>()}));
            s
        })
        .reduce(Stats::default, |mut a, b| {
            a.merge(b);
            a
        });
    let _ = std::fs::remove_dir_all(&base0);
    cx.stats.merge(part);
    cx.assume("symbolic links inside the root are not part of the generated trees");
    cx.assume("for serve_as_file_path, paths containing `..` or `:` are only held to `nothing from outside the root` (the statement's converse clause excludes them)");
    cx.finish()
}
