//! C06 — static handlers never leave their directory and serve what is inside it intact.
//! Exhaustive over request paths composed from a segment menu (dot segments, encodings, NUL,
//! absolute components, names with spaces/unicode/dots) x directory trees x route prefixes, against
//! a reference resolver, with canary files outside the root (DESIGN.md §3 C06). Trees, paths,
//! reference and judge live in c06_gen.rs (shared with the tokio runner).

pub use crate::props::c06_gen::*;
use crate::props::c09::state_from;
use crate::report::{Ctx, Stats};
use humphrey::handlers::{serve_as_file_path, serve_dir, serve_file};
use humphrey_server::r#static::directory_handler;
use rayon::prelude::*;
use serde_json::json;
use std::sync::Arc;

pub fn run(mut cx: Ctx) -> ! {
    cx.rule = "every request path of <= 2 (3) segments over a 24-segment menu (file and directory names incl. spaces, unicode and multi-dot, `.`, `..`, `...`, empty, %2e%2e, %2E., .%2e, %2f, %5c, %00, %252e%252e, overlong %c0%ae, ..%2f, C:), with and without trailing slash, as written and fully percent-encoded, plus absolute and sibling-prefix traversal paths, is given to serve_dir (3 route prefixes), serve_as_file_path and the server's directory_handler (cache off and on) for 12 (40) directory trees with canary files next to and above the root; a reference resolver decides file / 301 / 404, and no response may contain canary bytes; states = (tree, path) pairs, transitions = handler calls; non-trivial = paths the reference resolves to a file or redirect, or that contain a dot-dot in any spelling".into();
    let quick = cx.quick();
    let depth = cx.pick(3, 4);
    let masks = masks(quick);
    cx.bound("path_segments", depth);
    cx.bound("trees", masks.len());
    let ps = paths(depth);
    cx.bound("paths_per_tree", ps.len() * 2);
    let base0 = crate::report::root().join(".target").join("scratch").join(format!("c06-{}", std::process::id()));
    let part = masks
        .par_iter()
        .fold(Stats::default, |mut s, &mask| {
            let base = base0.join(format!("t{:03x}", mask));
            let root = make_tree(&base, mask);
            let root_s: &'static str = Box::leak(root.to_str().unwrap().to_string().into_boxed_str());
            let root_slash: &'static str = Box::leak(format!("{}/", root_s).into_boxed_str());
            let h_dir = serve_dir::<()>(root_s);
            let h_dir_slash = serve_dir::<()>(root_slash);
            let h_lit = serve_as_file_path::<()>(root_s);
            let st_off = state_from("server {\n  log {\n    console false\n  }\n}");
            let st_on = state_from("server {\n  log {\n    console false\n  }\n  cache {\n    size 65536\n    time 60\n  }\n}");
            for p in &ps {
                let spellings = [p.clone(), p.split('/').map(encode_all).collect::<Vec<_>>().join("/")];
                for (si, uri) in spellings.iter().enumerate() {
                    s.states += 1;
                    let interesting = uri.contains("..") || uri.to_ascii_lowercase().contains("%2e") || uri.contains("%c0");
                    // serve_dir under three route shapes
                    for (route, prefix) in [("/*", ""), ("/s/*", "/s"), ("/s", "/s")] {
                        let full = format!("{}{}", prefix, uri);
                        let rest = if route == "/*" { full.strip_prefix('/').map(|x| format!("/{}", x)).unwrap_or(full.clone()) } else { full.strip_prefix("/s").unwrap_or(&full).to_string() };
                        // the handler strips the route (minus its `*`); mirror that exactly for the reference
                        let stripped = full.strip_prefix(route.strip_suffix('*').unwrap_or(route)).unwrap_or(&full).to_string();
                        let _ = rest;
                        let want = resolve_dir(&root, &stripped, &full);
                        if matches!(want, Want::File(_) | Want::Redirect(_)) || interesting {
                            s.nontrivial += 1;
                        }
                        let h = if route == "/s" { &h_dir_slash } else { &h_dir };
                        let r = std::panic::catch_unwind(std::panic::AssertUnwindSafe(|| h(request(&full), Arc::new(()), route)));
                        judge(&mut s, "serve_dir", mask, &full, &want, r);
                    }
                    // serve_as_file_path
                    let want = resolve_literal(&root, uri);
                    let r = std::panic::catch_unwind(std::panic::AssertUnwindSafe(|| h_lit(request(uri), Arc::new(()))));
                    judge(&mut s, "serve_as_file_path", mask, uri, &want, r);
                    // the server's directory route, cache off / on (the second call may be served from the cache)
                    if si == 0 || p.len() < 24 {
                        let full = format!("/s{}", uri);
                        let want = resolve_dir(&root, uri, &full);
                        for (state, name) in [(&st_off, "directory route"), (&st_on, "directory route (cache on)"), (&st_on, "directory route (cache on, repeated)")] {
                            let r = std::panic::catch_unwind(std::panic::AssertUnwindSafe(|| directory_handler(request(&full), state.clone(), root_s, "/s*", 0)));
                            judge(&mut s, name, mask, &full, &want, r);
                        }
                        // a route pattern with a literal after its wildcard (`/s*t`): only the part before the `*` is
                        // the prefix to strip
                        if full.ends_with('t') {
                            let r = std::panic::catch_unwind(std::panic::AssertUnwindSafe(|| directory_handler(request(&full), st_off.clone(), root_s, "/s*t", 0)));
                            judge(&mut s, "directory route (pattern with a suffix)", mask, &full, &want, r);
                        }
                    }
                }
            }
            // directory routes under other pattern shapes: `/*`, `/s/*`, and an exact pattern without wildcard (`/s`,
            // matched only by `/s` itself: what remains after the prefix is the directory's own path)
            for (route, full, rest) in [("/s", "/s".to_string(), String::new()), ("/s/", "/s/".to_string(), String::new()), ("/*", "/a.txt".to_string(), "a.txt".to_string()), ("/s/*", "/s/a.txt".to_string(), "a.txt".to_string()), ("/*", "/d/".to_string(), "d/".to_string()), ("/s/*", "/s/d".to_string(), "d".to_string()), ("/s/*", "/s/../canary.txt".to_string(), "../canary.txt".to_string()), ("/*", "/../canary.txt".to_string(), "../canary.txt".to_string())] {
                s.states += 1;
                s.nontrivial += 1;
                let want = resolve_dir(&root, &rest, &full);
                let r = std::panic::catch_unwind(std::panic::AssertUnwindSafe(|| directory_handler(request(&full), st_off.clone(), root_s, route, 0)));
                judge(&mut s, "directory route (other pattern shapes)", mask, &full, &want, r);
            }
            // the same with an index file at the directory root (no generated tree has one): the route's own path
            // must then serve it
            {
                let ri = root.join("index.html");
                std::fs::write(&ri, b"<root index>").unwrap();
                for (route, full, rest) in [("/s", "/s", ""), ("/s/", "/s/", ""), ("/*", "/", ""), ("/s/*", "/s/", ""), ("/s*", "/s", ""), ("/s*", "/s/", "/")] {
                    s.states += 1;
                    s.nontrivial += 1;
                    let want = resolve_dir(&root, rest, full);
                    let r = std::panic::catch_unwind(std::panic::AssertUnwindSafe(|| directory_handler(request(full), st_off.clone(), root_s, route, 0)));
                    judge(&mut s, "directory route (index at the root)", mask, full, &want, r);
                }
                let h: &(dyn Fn(humphrey::http::Request, Arc<()>, &str) -> humphrey::http::Response) = &h_dir;
                for (route, full, rest) in [("/*", "/", ""), ("/s/*", "/s/", "")] {
                    s.states += 1;
                    let want = resolve_dir(&root, rest, full);
                    let r = std::panic::catch_unwind(std::panic::AssertUnwindSafe(|| h(request(full), Arc::new(()), route)));
                    judge(&mut s, "serve_dir (index at the root)", mask, full, &want, r);
                }
                let _ = std::fs::remove_file(&ri);
            }
            // serve_file: the configured file and nothing else, whatever the request path says; and
            // serve_as_file_path configured with a trailing slash
            let h_lit_slash = serve_as_file_path::<()>(root_slash);
            for uri in ["/a.txt", "/d/x.js", "/d/", "/../canary.txt", "/nope"] {
                s.states += 1;
                let want = resolve_literal(&root, uri);
                let r = std::panic::catch_unwind(std::panic::AssertUnwindSafe(|| h_lit_slash(request(uri), Arc::new(()))));
                judge(&mut s, "serve_as_file_path (root with trailing slash)", mask, uri, &want, r);
            }
            for (i, (rel, _)) in MENU.iter().enumerate() {
                let fp: &'static str = Box::leak(format!("{}/{}", root_s, rel).into_boxed_str());
                let h = serve_file::<()>(fp);
                let want = if mask & (1 << i) != 0 { Want::File(fp.into()) } else { Want::NotFound };
                for uri in ["/", "/x", "/../canary.txt", "/%2e%2e/canary.txt"] {
                    s.states += 1;
                    s.nontrivial += 1;
                    let r = std::panic::catch_unwind(std::panic::AssertUnwindSafe(|| h(request(uri), Arc::new(()))));
                    judge(&mut s, "serve_file", mask, uri, &want, r);
                }
            }
            let _ = std::fs::remove_dir_all(&base);
            s.sample(|| json!({"tree_mask": mask, "example_paths": ps.iter().skip(40).step_by(977).take(4).collect::<Vec<_>>()}));
            s
        })
        .reduce(Stats::default, |mut a, b| {
            a.merge(b);
            a
        });
    let _ = std::fs::remove_dir_all(&base0);
    cx.stats.merge(part);
    // the tokio runtime's own copies of serve_dir / serve_as_file_path / serve_file
    crate::tokio_twin::merge(&mut cx, "C06");
    cx.assume("symbolic links inside the root are not part of the generated trees");
    cx.assume("for serve_as_file_path, paths containing `..` or `:` are only held to `nothing from outside the root` (the statement's converse clause excludes them)");
    cx.finish()
}
