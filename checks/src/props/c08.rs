//! C08 — thread pool: exactly-once execution, panic isolation, shutdown terminates.
//! Engine E1: every schedule of the real ThreadPool (real OS threads, real std primitives behind
//! the facade) up to a preemption bound, for a family of lifecycle scripts (DESIGN.md §3 C08).

use crate::report::{Ctx, Stats};
use crate::sched::{self, Bound, Cfg};
use humphrey::thread::pool::ThreadPool;
use humphrey::verif::rt::{run_once, ExecResult, Want};
use humphrey::verif::sync::mpsc::{channel, Receiver, Sender};
use serde_json::json;
use std::sync::{Arc, Mutex};
use std::time::Duration;

#[derive(Clone, Copy, Debug, PartialEq)]
pub enum Task {
    Ok,
    Panic,
    /// completes only once all tasks of its group (id, size) run at the same time
    Rendezvous(usize, usize),
}

#[derive(Clone, Copy, Debug, PartialEq)]
pub enum Op {
    Start,
    Exec(Task),
    Stop,
}

#[derive(Clone, Debug)]
pub struct Scn {
    pub n: usize,
    pub ops: Vec<Op>,
}

#[derive(Default, Debug, Clone)]
pub struct Obs {
    /// (task index, 's' start | 'f' finish, thread name)
    pub events: Vec<(usize, char, String)>,
    /// scheduler ids of the threads that ran a task
    pub task_threads: Vec<usize>,
    pub stop_returned: usize,
    pub dropped: bool,
}

impl Scn {
    pub fn name(&self) -> String {
        let mut s = format!("N={} ", self.n);
        for o in &self.ops {
            s.push_str(match o {
                Op::Start => "start,",
                Op::Exec(Task::Ok) => "exec(ok),",
                Op::Exec(Task::Panic) => "exec(panic),",
                Op::Exec(Task::Rendezvous(..)) => "exec(rendezvous),",
                Op::Stop => "stop,",
            });
        }
        s.push_str("drop");
        s
    }
    fn tasks(&self) -> Vec<Task> {
        self.ops.iter().filter_map(|o| if let Op::Exec(t) = o { Some(*t) } else { None }).collect()
    }
    fn stops_last(&self) -> bool {
        matches!(self.ops.last(), Some(Op::Stop))
    }
}

pub fn body(scn: &Scn, obs: &Arc<Mutex<Obs>>) {
    let mut pool = ThreadPool::new(scn.n);
    // rendezvous plumbing: one facade channel per rendezvous task
    let tasks = scn.tasks();
    let mut txs: Vec<Option<Sender<()>>> = vec![];
    let mut rxs: Vec<Option<Receiver<()>>> = vec![];
    for t in &tasks {
        if let Task::Rendezvous(..) = t {
            let (tx, rx) = channel();
            txs.push(Some(tx));
            rxs.push(Some(rx));
        } else {
            txs.push(None);
            rxs.push(None);
        }
    }
    let mut ti = 0usize;
    for op in &scn.ops {
        match op {
            Op::Start => pool.start(),
            Op::Stop => {
                pool.stop();
                obs.lock().unwrap().stop_returned += 1;
            }
            Op::Exec(t) => {
                let idx = ti;
                ti += 1;
                let o = obs.clone();
                let t = *t;
                let my_rx = rxs[idx].take();
                let peers: Vec<Sender<()>> = match t {
                    Task::Rendezvous(g, _) => tasks
                        .iter()
                        .enumerate()
                        .filter(|(j, u)| *j != idx && matches!(u, Task::Rendezvous(g2, _) if *g2 == g))
                        .map(|(j, _)| txs[j].as_ref().unwrap().clone())
                        .collect(),
                    _ => vec![],
                };
                pool.execute(move || {
                    let name = humphrey::verif::thread::verif_current_name().unwrap_or_else(|| "?".into());
                    {
                        let mut g = o.lock().unwrap();
                        g.events.push((idx, 's', name.clone()));
                        if let Some(t) = humphrey::verif::rt::my_tid() {
                            g.task_threads.push(t);
                        }
                    }
                    match t {
                        Task::Ok => {}
                        Task::Panic => panic!("task panic (injected by the C08 harness)"),
                        Task::Rendezvous(_, size) => {
                            for p in &peers {
                                let _ = p.send(());
                            }
                            let rx = my_rx.unwrap();
                            for _ in 0..size - 1 {
                                // blocks forever unless the other members are running concurrently
                                if rx.recv().is_err() {
                                    return;
                                }
                            }
                        }
                    }
                    o.lock().unwrap().events.push((idx, 'f', name));
                });
            }
        }
    }
    drop(txs);
    drop(pool);
    obs.lock().unwrap().dropped = true;
}

pub fn check(scn: &Scn, r: &ExecResult, o: &Obs, choices: &[usize], s: &mut Stats) {
    s.evaluations += 1;
    s.transitions += r.points.len() as u64;
    let tasks = scn.tasks();
    let any_panic = tasks.iter().any(|t| *t == Task::Panic);
    if any_panic || tasks.len() >= 2 {
        s.nontrivial += 1;
    }
    let detail = |what: &str| {
        json!({"scenario": scn.name(), "schedule": choices, "what": what, "events": format!("{:?}", o.events),
               "blocked_at_end": format!("{:?}", r.blocked_at_end), "stop_returned": o.stop_returned, "dropped": o.dropped})
    };
    let class = if scn.ops.is_empty() || !scn.ops.contains(&Op::Start) {
        "never-started"
    } else if scn.stops_last() {
        "stop-then-drop"
    } else {
        "drop-without-stop"
    };
    if let Some(p) = &r.root_panic {
        s.violation(format!("{}: submitting thread panicked: {}", class, crate::report::truncate(p, 80)), || detail("root panic"));
        return;
    }
    if r.step_cap_hit {
        s.violation(format!("{}: execution exceeded the step horizon (livelock?)", class), || detail("step cap"));
        return;
    }
    if r.deadlock {
        let where_ = if !o.dropped && o.stop_returned < scn.ops.iter().filter(|x| **x == Op::Stop).count() {
            "before/inside stop()"
        } else if !o.dropped {
            "inside drop"
        } else {
            "after drop"
        };
        s.violation(format!("{}: caller blocked forever {}", class, where_), || detail("deadlock: no runnable thread while the caller has not returned"));
        s.outcome(format!("deadlock {}", where_));
        return;
    }
    // exactly once
    for (i, t) in tasks.iter().enumerate() {
        let starts = o.events.iter().filter(|e| e.0 == i && e.1 == 's').count();
        let fins = o.events.iter().filter(|e| e.0 == i && e.1 == 'f').count();
        if starts == 0 {
            s.violation(format!("{}: a submitted task was never executed", class), || detail(&format!("task {} ({:?}) never started", i, t)));
        } else if starts > 1 {
            s.violation(format!("{}: a task was executed more than once", class), || detail(&format!("task {} started {} times", i, starts)));
        } else {
            match t {
                Task::Panic => {}
                Task::Ok => {
                    if fins != 1 {
                        s.violation(format!("{}: a task did not run to completion", class), || detail(&format!("task {} finished {} times", i, fins)));
                    }
                }
                Task::Rendezvous(..) => {
                    if fins != 1 {
                        s.violation(format!("{}: fewer than N tasks ran concurrently (rendezvous never completed)", class), || {
                            detail(&format!("rendezvous task {} started but never completed", i))
                        });
                    }
                }
            }
        }
    }
    // every worker thread has exited: at quiescence at most one thread per start() may still be blocked (the detached
    // recovery thread, which waits for panics for ever), it must be waiting on a channel, and it must not be a
    // thread that ever ran a task. (Deliberately independent of how the pool names its threads.)
    let leftovers: Vec<&(usize, Option<String>, Want)> = r.blocked_at_end.iter().collect();
    // one recovery thread per start()
    let starts = scn.ops.iter().filter(|o| **o == Op::Start).count();
    let bad = leftovers.len() > starts || leftovers.iter().any(|(tid, _, want)| !matches!(want, Want::Recv(..)) || o.task_threads.contains(tid));
    if bad {
        s.violation(format!("{}: a worker thread never exits", class), || detail(&format!("threads still blocked at quiescence: {:?}", r.blocked_at_end)));
    }
    s.outcome(format!(
        "ok tasks={} workers_used={} leftover_threads={}",
        tasks.len(),
        {
            let mut n: Vec<&String> = o.events.iter().map(|e| &e.2).collect();
            n.sort();
            n.dedup();
            n.len()
        },
        r.blocked_at_end.len()
    ));
}

pub fn scenarios(quick: bool) -> Vec<(Scn, usize)> {
    let mut v: Vec<(Scn, usize)> = vec![];
    let nmax = 3;
    // never started / started without work
    v.push((Scn { n: 1, ops: vec![] }, 3));
    for n in 1..=nmax {
        v.push((Scn { n, ops: vec![Op::Start, Op::Stop] }, if n == 3 && quick { 2 } else { 3 }));
        v.push((Scn { n, ops: vec![Op::Start] }, if n == 3 && quick { 2 } else { 3 }));
    }
    for n in 1..=nmax {
        let kmax = match (quick, n) {
            (true, 1) => 3,
            (true, 2) => 3,
            (true, _) => 2,
            (false, 1) => 4,
            (false, 2) => 4,
            (false, _) => 3,
        };
        for k in 1..=kmax {
            for mask in 0..(1u32 << k) {
                for with_stop in [true, false] {
                    let mut ops = vec![Op::Start];
                    for i in 0..k {
                        ops.push(Op::Exec(if mask & (1 << i) != 0 { Task::Panic } else { Task::Ok }));
                    }
                    if with_stop {
                        ops.push(Op::Stop);
                    }
                    let panics = mask.count_ones() as usize;
                    let b = if quick {
                        match n {
                            1 => 3,
                            2 => {
                                if k <= 1 { 3 } else if k == 2 || panics <= 1 { 2 } else { 1 }
                            }
                            _ => 1,
                        }
                    } else {
                        match n {
                            1 => 4,
                            2 => {
                                if k <= 2 { 3 } else if panics <= 2 && k <= 3 { 2 } else { 2 }
                            }
                            _ => {
                                if k <= 1 { 3 } else { 2 }
                            }
                        }
                    };
                    v.push((Scn { n, ops }, b));
                }
            }
        }
    }
    // N tasks really run concurrently
    for n in 2..=nmax {
        for with_stop in [true, false] {
            let mut ops = vec![Op::Start];
            for _ in 0..n {
                ops.push(Op::Exec(Task::Rendezvous(0, n)));
            }
            if with_stop {
                ops.push(Op::Stop);
            }
            v.push((Scn { n, ops }, if n == 2 { if quick { 2 } else { 3 } } else if quick { 1 } else { 2 }));
        }
    }
    // after a panic the pool is back to N usable workers
    for n in 2..=nmax {
        for with_stop in [true, false] {
            let mut ops = vec![Op::Start, Op::Exec(Task::Panic)];
            for _ in 0..n {
                ops.push(Op::Exec(Task::Rendezvous(0, n)));
            }
            if with_stop {
                ops.push(Op::Stop);
            }
            v.push((Scn { n, ops }, if n == 2 { 2 } else if quick { 0 } else { 2 }));
        }
    }
    // a restarted worker panics again, then serves a task
    v.push((Scn { n: 1, ops: vec![Op::Start, Op::Exec(Task::Panic), Op::Exec(Task::Panic), Op::Exec(Task::Ok), Op::Stop] }, 3));
    v.push((Scn { n: 1, ops: vec![Op::Start, Op::Exec(Task::Panic), Op::Exec(Task::Panic), Op::Exec(Task::Ok)] }, 3));
    // a task of the first generation panics around / after a restart (old recovery thread still alive)
    for with_stop in [true, false] {
        let mut ops = vec![Op::Start, Op::Exec(Task::Panic), Op::Stop, Op::Start, Op::Exec(Task::Ok)];
        if with_stop {
            ops.push(Op::Stop);
        }
        v.push((Scn { n: 1, ops: ops.clone() }, if quick { 2 } else { 3 }));
        if !quick {
            v.push((Scn { n: 2, ops }, 1));
        }
    }
    v.push((Scn { n: 1, ops: vec![Op::Start, Op::Exec(Task::Ok), Op::Exec(Task::Panic), Op::Stop, Op::Start, Op::Exec(Task::Panic), Op::Exec(Task::Ok)] }, if quick { 1 } else { 2 }));
    // stop, then start again and keep working
    v.push((Scn { n: 1, ops: vec![Op::Start, Op::Exec(Task::Ok), Op::Stop, Op::Start, Op::Exec(Task::Ok), Op::Stop] }, 2));
    v.push((Scn { n: 2, ops: vec![Op::Start, Op::Exec(Task::Panic), Op::Stop, Op::Start, Op::Exec(Task::Ok), Op::Stop] }, if quick { 0 } else { 2 }));
    v
}

pub fn run_scenario(scn: &Scn, prefix: Vec<usize>) -> (ExecResult, Obs) {
    let obs = Arc::new(Mutex::new(Obs::default()));
    let o2 = obs.clone();
    let scn2 = scn.clone();
    let r = run_once(prefix, 50_000, &move || body(&scn2, &o2));
    let o = obs.lock().unwrap().clone();
    (r, o)
}

pub fn run(mut cx: Ctx) -> ! {
    cx.rule = "for every lifecycle script of the family, every schedule of the submitting thread, the N workers and the recovery thread with at most `pre` preemptions is executed on the real ThreadPool; states = complete executions (schedules), transitions = scheduler decision points; non-trivial = schedules of scripts with a panicking task or at least two tasks".into();
    let list = scenarios(cx.quick());
    let total_wall = Duration::from_secs(if cx.quick() { 45 } else { 1500 });
    let t0 = std::time::Instant::now();
    let mut per = vec![];
    let mut min_completed: Option<usize> = Some(usize::MAX);
    for (scn, pre) in &list {
        let mut cfg = Cfg::new(Bound::Preemption(*pre));
        let left = total_wall.checked_sub(t0.elapsed()).unwrap_or(Duration::from_secs(1));
        cfg.wall = left.min(Duration::from_secs(if cx.quick() { 12 } else { 300 }));
        let mut st = Stats::default();
        let out = sched::explore(&cfg, &|p| run_scenario(scn, p), &|r, o, c, s| check(scn, r, o, c, s), &mut st);
        sched::die_on_machinery(&out, &scn.name());
        st.states += out.execs;
        if out.capped {
            cx.cap(format!("{}: capped, completed preemption bound {:?} of {}", scn.name(), out.completed_bound, pre));
        }
        min_completed = match (min_completed, out.completed_bound) {
            (Some(a), Some(b)) => Some(a.min(b)),
            _ => None,
        };
        per.push(json!({"scenario": scn.name(), "preemption_bound": pre, "completed_bound": out.completed_bound, "schedules": out.execs,
                        "decision_points": out.decision_points, "max_points": out.max_points, "threads": out.max_threads, "replay_checked": out.rechecked}));
        if per.len() <= 3 {
            st.sample(|| json!({"scenario": scn.name(), "schedules": out.execs}));
        }
        cx.stats.merge(st);
    }
    // every script also runs free of the scheduler on real racing threads
    {
        use rayon::prelude::*;
        let runs = cx.pick(3, 20);
        let res: Vec<(String, Result<(), String>)> = list.par_iter().map(|(scn, _)| (scn.name(), free_running(scn, runs))).collect();
        for (name, r) in res {
            cx.stats.traces_validated += runs as u64;
            if let Err(e) = r {
                cx.stats.violation(format!("free-running replay: {}", e.split(':').next().unwrap_or("")), || json!({"scenario": name, "what": e}));
            }
        }
    }
    cx.bound("scenarios", list.len());
    cx.bound("min_completed_preemption_bound", json!(min_completed));
    cx.extra.insert("per_scenario".into(), json!(per));
    cx.assume("scheduling points at every Mutex lock, channel send/recv, thread spawn/join; the code under test contains no unsafe and no other shared state");
    cx.finish()
}

// ---------------- binding the scheduler to reality (DESIGN.md §2.7) ----------------

/// The same lifecycle script, free-running: no runtime installed, the facade is a pass-through, real
/// OS threads race for real. Only schedule-independent clauses are judged (the caller returns, every
/// task starts exactly once and completes); a hang shows as a timeout.
pub fn free_running(scn: &Scn, runs: usize) -> Result<(), String> {
    for _ in 0..runs {
        let obs = Arc::new(Mutex::new(Obs::default()));
        let (o2, s2) = (obs.clone(), scn.clone());
        let h = std::thread::spawn(move || body(&s2, &o2));
        let t0 = std::time::Instant::now();
        while !obs.lock().unwrap().dropped {
            if t0.elapsed() > Duration::from_secs(5) {
                return Err("caller did not return from stop/drop within 5 s (free-running)".into());
            }
            std::thread::sleep(Duration::from_micros(200));
        }
        let _ = h.join();
        // workers are detached: give queued tasks a bounded time to finish
        let tasks = scn.tasks();
        let done = |o: &Obs| {
            tasks.iter().enumerate().all(|(i, t)| {
                let s = o.events.iter().filter(|e| e.0 == i && e.1 == 's').count();
                let f = o.events.iter().filter(|e| e.0 == i && e.1 == 'f').count();
                s == 1 && (*t == Task::Panic || f == 1)
            })
        };
        let t1 = std::time::Instant::now();
        loop {
            let o = obs.lock().unwrap().clone();
            if done(&o) {
                break;
            }
            if o.events.iter().filter(|e| e.1 == 's').count() > tasks.len() || t1.elapsed() > Duration::from_secs(5) {
                return Err(format!("free-running outcome differs from the explored ones: events {:?}", o.events));
            }
            std::thread::sleep(Duration::from_micros(200));
        }
    }
    Ok(())
}
