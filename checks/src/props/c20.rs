//! C20 — a shutdown signal always ends `App::run` and frees the port (threaded runtime).
//! Engine E1: the real accept loop, pool and connection handlers on a simulated listener; the
//! signal thread and the client threads run concurrently and the explorer places the signal
//! everywhere relative to accepts, dispatches and handler progress (DESIGN.md §3 C20).

use crate::report::{Ctx, Stats};
use crate::sched::{self, Bound, Cfg};
use humphrey::http::{Request, Response, StatusCode};
use humphrey::stream::Stream;
use humphrey::verif::net::{TcpListener, TcpStream};
use humphrey::verif::rt::{run_once, ExecResult};
use humphrey::verif::sync::mpsc::channel;
use humphrey::verif::thread;
use humphrey::App;
use rayon::prelude::*;
use serde_json::json;
use std::io::{Read, Write};
use std::sync::{Arc, Mutex};

#[derive(Clone, Copy, Debug, PartialEq, Eq)]
pub enum Conn {
    /// connects and sends nothing
    JustConnected,
    /// sends the first half of a request
    HalfRequest,
    /// complete request, `Connection: close`, short handler
    Short,
    /// complete request with keep-alive, short handler, then idles on the open connection
    KeepAliveIdle,
    /// complete request to a handler that never returns
    Long,
    /// upgrade request to a WebSocket route whose handler keeps the connection
    WebSocket,
    /// two requests back to back on one keep-alive connection, each in its own write
    TwoRequests,
    /// complete request for a response larger than a socket send buffer; the client reads nothing until
    /// `run` has returned, so the response is being written when the signal arrives
    BigResponse,
}

#[derive(Clone, Debug)]
pub struct Scn {
    pub p: usize,
    pub bind: &'static str,
    pub conns: Vec<Conn>,
}

#[derive(Default, Clone, Debug)]
pub struct Obs {
    pub accepted: Vec<u16>,
    pub run_returned: bool,
    pub run_result_ok: bool,
    pub rebind_ok: Option<bool>,
    /// source ports of the connections whose request reached the slow handler
    pub slow_entered: Vec<u16>,
}

type St = Arc<Mutex<Obs>>;

fn condition(stream: &mut TcpStream, st: Arc<St>) -> bool {
    if let Ok(a) = stream.peer_addr() {
        st.lock().unwrap().accepted.push(a.port());
    }
    true
}

const BODY: &[u8] = b"0123456789abcdefghijklmnopqrstuvwxyz-body";
/// larger than the simulated send buffer (256 KiB)
pub const BIG: usize = 300 * 1024;

pub fn body(scn: &Scn, obs: &St) {
    let (tx, rx) = channel::<()>();
    // a gate nobody ever opens: handlers blocked on it model long-running requests
    let (gate_tx, gate_rx) = channel::<()>();
    let gate_rx = Arc::new(humphrey::verif::sync::Mutex::new(gate_rx));
    let g2 = gate_rx.clone();
    // a second gate, also opened once run() has returned: clients that read nothing before that
    let (read_tx, read_rx) = channel::<()>();
    let read_rx = Arc::new(humphrey::verif::sync::Mutex::new(read_rx));
    let app: App<St> = App::new_with_config(scn.p, obs.clone())
        .with_shutdown(rx)
        .with_connection_condition(condition)
        .with_stateless_route("/", |_req: Request| Response::new(StatusCode::OK, BODY))
        .with_route("/slow", move |req: Request, st: Arc<St>| {
            st.lock().unwrap().slow_entered.push(req.address.port);
            let _ = g2.lock().unwrap().recv();
            Response::new(StatusCode::OK, b"late")
        })
        .with_stateless_route("/big", |_req: Request| Response::new(StatusCode::OK, vec![b'B'; BIG]))
        .with_websocket_route("/ws", |_req: Request, mut stream: Stream, _st: Arc<St>| {
            let _ = stream.write_all(b"HTTP/1.1 101 Switching Protocols\r\n\r\n");
            let mut buf = [0u8; 16];
            while let Ok(n) = stream.read(&mut buf) {
                if n == 0 {
                    break;
                }
            }
        });
    let port = 8080u16;
    let target: std::net::SocketAddr = if scn.bind.starts_with('[') { format!("[::1]:{}", port).parse().unwrap() } else { format!("127.0.0.1:{}", port).parse().unwrap() };
    for (i, c) in scn.conns.iter().enumerate() {
        let c = *c;
        let read_gate = read_rx.clone();
        let from: std::net::SocketAddr = if target.is_ipv4() { format!("127.0.0.1:{}", 5000 + i).parse().unwrap() } else { format!("[::1]:{}", 5000 + i).parse().unwrap() };
        thread::Builder::new()
            .name(format!("client{}", i))
            .spawn(move || {
                // the listener may not be bound yet: a refused connect ends this client
                let Ok(mut s) = TcpStream::verif_connect_from(from, target) else { return };
                match c {
                    Conn::JustConnected => {}
                    Conn::HalfRequest => {
                        let _ = s.write_all(b"GET / HTTP/1.1\r\nHost: x");
                    }
                    Conn::Short => {
                        let _ = s.write_all(b"GET / HTTP/1.1\r\nHost: x\r\nConnection: close\r\n\r\n");
                    }
                    Conn::KeepAliveIdle => {
                        let _ = s.write_all(b"GET / HTTP/1.1\r\nHost: x\r\nConnection: keep-alive\r\n\r\n");
                    }
                    Conn::Long => {
                        let _ = s.write_all(b"GET /slow HTTP/1.1\r\nHost: x\r\nConnection: close\r\n\r\n");
                    }
                    Conn::WebSocket => {
                        let _ = s.write_all(b"GET /ws HTTP/1.1\r\nHost: x\r\nUpgrade: websocket\r\nConnection: Upgrade\r\n\r\n");
                    }
                    Conn::TwoRequests => {
                        let _ = s.write_all(b"GET / HTTP/1.1\r\nHost: x\r\nConnection: keep-alive\r\n\r\n");
                        let _ = s.write_all(b"GET / HTTP/1.0\r\nHost: x\r\nConnection: close\r\n\r\n");
                    }
                    Conn::BigResponse => {
                        let _ = s.write_all(b"GET /big HTTP/1.1\r\nHost: x\r\nConnection: close\r\n\r\n");
                        let _ = read_gate.lock().unwrap().recv();
                    }
                }
                // keep the socket open: block reading until the server closes (or forever)
                let mut buf = [0u8; 65536];
                while let Ok(n) = s.read(&mut buf) {
                    if n == 0 {
                        break;
                    }
                }
            })
            .unwrap();
    }
    thread::Builder::new()
        .name("signal".into())
        .spawn(move || {
            let _ = tx.send(());
        })
        .unwrap();
    let r = app.run(scn.bind);
    {
        let mut o = obs.lock().unwrap();
        o.run_returned = true;
        o.run_result_ok = r.is_ok();
    }
    let again = TcpListener::bind(scn.bind);
    obs.lock().unwrap().rebind_ok = Some(again.is_ok());
    drop(again);
    drop(gate_tx);
    drop(read_tx);
    // note: gate_tx dropped => "long" handlers are released after run() has returned; before that they block
}

pub fn run_scn(scn: &Scn, prefix: Vec<usize>) -> (ExecResult, Obs) {
    let obs: St = Arc::new(Mutex::new(Obs::default()));
    let (o2, s2) = (obs.clone(), scn.clone());
    let r = run_once(prefix, 100_000, &move || body(&s2, &o2));
    let o = obs.lock().unwrap().clone();
    (r, o)
}

/// Parses a stream of responses; Ok(n complete responses, leftover bytes that are not a complete response)
pub fn parse_responses(mut b: &[u8]) -> (usize, usize) {
    let mut n = 0;
    loop {
        // tolerate the CRLF Humphrey appends after a non-empty body (recorded under C01/C07)
        while b.starts_with(b"\r\n") {
            b = &b[2..];
        }
        if b.is_empty() {
            return (n, 0);
        }
        let Some(h) = b.windows(4).position(|w| w == b"\r\n\r\n") else { return (n, b.len()) };
        let head = String::from_utf8_lossy(&b[..h]).to_string();
        if !head.starts_with("HTTP/1.") {
            return (n, b.len());
        }
        let cl = head
            .split("\r\n")
            .skip(1)
            .filter_map(|l| l.split_once(':'))
            .find(|(k, _)| k.eq_ignore_ascii_case("content-length"))
            .and_then(|(_, v)| v.trim().parse::<usize>().ok())
            .unwrap_or(0);
        if b.len() < h + 4 + cl {
            return (n, b.len());
        }
        b = &b[h + 4 + cl..];
        n += 1;
    }
}

pub fn check(scn: &Scn, r: &ExecResult, o: &Obs, choices: &[usize], s: &mut Stats) {
    s.evaluations += 1;
    s.transitions += r.points.len() as u64;
    if !scn.conns.is_empty() {
        s.nontrivial += 1;
    }
    let ctx = |what: String| {
        json!({"what": what, "P": scn.p, "bind": scn.bind, "connections": format!("{:?}", scn.conns), "schedule": choices, "accepted_ports": o.accepted,
               "run_returned": o.run_returned, "rebind_ok": o.rebind_ok, "blocked_at_end": format!("{:?}", r.blocked_at_end).chars().take(400).collect::<String>(),
               "server_wrote": r.conn_written.iter().map(|w| crate::report::show(&w[1][..w[1].len().min(60)])).collect::<Vec<_>>()})
    };
    let class = format!("[{} connection(s), P={}]", scn.conns.len(), scn.p);
    if let Some(p) = &r.root_panic {
        s.violation(format!("{} run() panicked: {}", class, crate::report::truncate(p, 60)), || ctx(p.clone()));
        return;
    }
    if r.step_cap_hit {
        s.violation(format!("{} execution exceeded the step horizon", class), || ctx("step cap".into()));
        return;
    }
    if r.deadlock || !o.run_returned {
        s.violation(format!("{} run() never returns after the shutdown signal", class), || ctx("deadlock: the thread that called run() is blocked and nothing can run".into()));
        s.outcome("run-never-returns");
        return;
    }
    if !o.run_result_ok {
        s.violation(format!("{} run() returned an error", class), || ctx("run returned Err".into()));
        return;
    }
    if o.rebind_ok != Some(true) {
        s.violation(format!("{} the listening address cannot be bound again after run() returned", class), || ctx("rebind failed".into()));
        return;
    }
    // per connection: what the server wrote is a whole number of complete responses; accepted and
    // servable connections are served
    // connections are numbered in creation order; map by source port
    for (i, c) in scn.conns.iter().enumerate() {
        let port = 5000 + i as u16;
        let accepted = o.accepted.contains(&port);
        // find this client's connection: the one whose client side address has this port is not recorded in
        // ExecResult, so use the bytes the client wrote as the key
        let w = conn_of(r, scn, i);
        let Some(w) = w else { continue };
        let out = &w[1];
        match c {
            Conn::WebSocket => {
                if !out.is_empty() && !out.starts_with(b"HTTP/1.1 101") {
                    s.violation(format!("{} unexpected bytes on a WebSocket connection", class), || ctx(format!("connection {}", i)));
                }
            }
            _ => {
                let (n, leftover) = parse_responses(out);
                if leftover > 0 {
                    s.violation(format!("{} a response was truncated by the shutdown", class), || ctx(format!("connection {} ({:?}): {} complete responses then {} stray bytes", i, c, n, leftover)));
                    continue;
                }
                // (max responses, responses that must be there once the connection was accepted)
                let (expect, must) = match c {
                    Conn::Short | Conn::KeepAliveIdle => (1, 1),
                    // the second request may be lost when both arrive in one read (recorded under C01)
                    Conn::TwoRequests => (2, 1),
                    // the blocked handler is released only after run() has returned; once it has the request, its
                    // response must arrive (whole): the shutdown must not cancel a request that is being handled
                    Conn::Long => (1, if o.slow_entered.contains(&port) { 1 } else { 0 }),
                    Conn::BigResponse => (1, 1),
                    _ => (0, 0),
                };
                if n > expect {
                    s.violation(format!("{} more responses than requests", class), || ctx(format!("connection {} ({:?}): {} responses", i, c, n)));
                } else if accepted && n < must && {
                    // other connections that occupy a worker forever; with all workers taken a queued
                    // connection legitimately waits (that is pool sizing, not shutdown). TwoRequests counts because its
                    // second request can be lost to read-ahead (recorded under C01), leaving the worker in a keep-alive read
                    let blockers = scn.conns.iter().enumerate().filter(|(j, k)| *j != i && matches!(k, Conn::JustConnected | Conn::HalfRequest | Conn::KeepAliveIdle | Conn::WebSocket | Conn::TwoRequests)).count();
                    blockers < scn.p
                } {
                    s.violation(format!("{} {}", class, if *c == Conn::Long { "a request that was being handled when the signal came was never answered" } else { "an accepted connection with a complete request was never answered" }), || ctx(format!("connection {} ({:?}): {} of {} responses", i, c, n, must)));
                } else if !accepted && n > 0 {
                    s.violation(format!("{} a response on a connection that was never accepted", class), || ctx(format!("connection {}", i)));
                }
            }
        }
    }
    s.outcome(format!("accepted={} of {}", o.accepted.iter().filter(|p| **p >= 5000 && **p < 5100).count(), scn.conns.len()));
}

/// Simulated connections are numbered in creation order, which depends on the schedule; client i
/// always connects from port 5000+i (the wake-up connection made by `run` comes from 40000+id).
fn conn_of<'a>(r: &'a ExecResult, _scn: &Scn, i: usize) -> Option<&'a [Vec<u8>; 2]> {
    let idx = r.conn_addrs.iter().position(|a| a[0].port() == 5000 + i as u16)?;
    r.conn_written.get(idx)
}

pub fn scenarios(quick: bool) -> Vec<(Scn, Bound)> {
    let kinds = [Conn::JustConnected, Conn::HalfRequest, Conn::Short, Conn::KeepAliveIdle, Conn::Long, Conn::WebSocket, Conn::TwoRequests];
    let mut v = vec![];
    for bind in ["127.0.0.1:8080", "0.0.0.0:8080", "[::]:8080"] {
        for p in [1usize, 2] {
            v.push((Scn { p, bind, conns: vec![] }, Bound::Deviation(if quick { 3 } else { 4 })));
        }
    }
    for p in [1usize, 2] {
        for &k in &kinds {
            v.push((Scn { p, bind: "127.0.0.1:8080", conns: vec![k] }, Bound::Deviation(if quick { 3 } else { 4 })));
        }
        v.push((Scn { p, bind: "0.0.0.0:8080", conns: vec![Conn::Short] }, Bound::Deviation(if quick { 3 } else { 4 })));
        v.push((Scn { p, bind: "[::]:8080", conns: vec![Conn::Long] }, Bound::Deviation(if quick { 3 } else { 4 })));
    }
    for p in [1usize, 2] {
        v.push((Scn { p, bind: "127.0.0.1:8080", conns: vec![Conn::BigResponse] }, Bound::Deviation(if quick { 2 } else { 3 })));
        for other in [Conn::Short, Conn::Long, Conn::BigResponse] {
            v.push((Scn { p, bind: "127.0.0.1:8080", conns: vec![Conn::BigResponse, other] }, Bound::Deviation(if quick { 1 } else { 2 })));
        }
    }
    // two connections: every unordered pair of kinds (fully occupied pools included: Long+Long on P=1 and P=2)
    for p in [1usize, 2] {
        for (i, &a) in kinds.iter().enumerate() {
            for &b in &kinds[i..] {
                let hot = matches!((a, b), (Conn::Long, Conn::Long) | (Conn::Short, Conn::Short) | (Conn::Short, Conn::Long) | (Conn::KeepAliveIdle, Conn::Long));
                v.push((Scn { p, bind: "127.0.0.1:8080", conns: vec![a, b] }, Bound::Deviation(if quick { if hot { 2 } else { 1 } } else { 3 })));
            }
        }
    }
    if !quick {
        for p in [1usize, 2] {
            for trio in [
                [Conn::Long, Conn::Long, Conn::Short],
                [Conn::Long, Conn::WebSocket, Conn::KeepAliveIdle],
                [Conn::Short, Conn::Short, Conn::Short],
                [Conn::HalfRequest, Conn::Long, Conn::TwoRequests],
                [Conn::KeepAliveIdle, Conn::KeepAliveIdle, Conn::JustConnected],
            ] {
                v.push((Scn { p, bind: "0.0.0.0:8080", conns: trio.to_vec() }, Bound::Deviation(2)));
            }
        }
    }
    v
}

pub fn run(mut cx: Ctx) -> ! {
    cx.rule = "for every traffic scenario (0..2 connections, thorough 3, each in one of 7 states, pools of 1 and 2 workers, three bind addresses) the real App::run with a shutdown receiver runs on a simulated listener; the signal thread and the clients are concurrent, and every schedule within the bound (deviations from the default scheduler: every non-default choice at any decision point costs 1) is executed; states = complete executions, transitions = decision points; non-trivial = executions with at least one connection".into();
    let list = scenarios(cx.quick());
    let budget = std::time::Duration::from_secs(if cx.quick() { 40 } else { 1500 });
    let t0 = std::time::Instant::now();
    // big scenarios get all workers; small ones run in parallel with one worker each
    let results: Vec<(Stats, sched::Out, String, Bound)> = list
        .par_iter()
        .map(|(scn, bound)| {
            let mut st = Stats::default();
            let mut cfg = Cfg::new(*bound);
            cfg.max_steps = 100_000;
            cfg.workers = 2;
            cfg.recheck_every = 301;
            cfg.wall = budget.checked_sub(t0.elapsed()).unwrap_or(std::time::Duration::from_millis(1));
            let out = sched::explore(&cfg, &|p| run_scn(scn, p), &|r, o, c, s| check(scn, r, o, c, s), &mut st);
            st.states += out.execs;
            (st, out, format!("P={} bind={} conns={:?}", scn.p, scn.bind, scn.conns), *bound)
        })
        .collect();
    // the explored traffic states, free-running on real threads and real loopback sockets (several Apps alive in the
    // process at the same time, each with its own shutdown receiver). They run before the explorer's results are
    // looked at: state of the subject that outlives an execution (a process-wide static, say) makes the explorer's
    // replays diverge, which is a machinery exit without a verdict, while the free-running replays still decide.
    let mut real = Stats::default();
    crate::props::c20_real::run_replays(&mut real, cx.quick());
    let real_violations = !real.violations.is_empty();
    cx.stats.merge(real);
    let mut per = vec![];
    for (st, out, name, bound) in results {
        if real_violations && !out.machinery_errors.is_empty() {
            cx.cap(format!("{}: the explorer's executions were not reproducible ({}); only the free-running replays are reported", name, out.machinery_errors[0]));
            cx.finish();
        }
        sched::die_on_machinery(&out, &name);
        if out.capped {
            cx.cap(format!("{}: capped, completed bound {:?} of {:?}", name, out.completed_bound, bound));
        }
        if per.len() < 4 {
            cx.stats.sample(|| json!({"scenario": name, "schedules": out.execs}));
        }
        per.push(json!({"scenario": name, "bound": format!("{:?}", bound), "completed_bound": out.completed_bound, "schedules": out.execs, "max_decision_points": out.max_points, "threads": out.max_threads}));
        cx.stats.merge(st);
    }
    cx.extra.insert("per_scenario".into(), json!(per));
    cx.bound("scenarios", list.len());
    // and against the real tokio App::run (states replayed, schedules not enumerated)
    crate::tokio_twin::merge(&mut cx, "C20");
    cx.assume("tokio runtime: schedules are not enumerated (its scheduler and tokio::net are outside the controlled facade); each traffic state is replayed once against the real tokio App::run on loopback with a 5 s bound");
    cx.assume("promptness is decided in virtual time: `run` returns without any timer having to fire");
    cx.finish()
}
