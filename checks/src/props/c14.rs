//! C14 — typed JSON mapping (derive and json_map!) and the json! macro preserve every value.
//! The space of type declarations and json! literals of a bounded grammar is enumerated completely,
//! emitted as one Rust crate that depends on /repo's humphrey_json by path, compiled and run
//! (DESIGN.md §3 C14). A literal or type that does not compile is attributed through the
//! compiler's line numbers and reported; the rest is then rebuilt without it.

use crate::report::{Ctx, Stats};
use serde_json::json;
use std::fmt::Write as _;
use std::path::PathBuf;

#[derive(Clone, Copy, Debug, PartialEq)]
enum FT {
    Bool,
    U8,
    I64,
    F64,
    Str,
    OptI32,
    VecStr,
    Nested,
    VecOptI32,
}

const FTS: [FT; 8] = [FT::Bool, FT::U8, FT::I64, FT::F64, FT::Str, FT::OptI32, FT::VecStr, FT::Nested];

impl FT {
    fn ty(&self) -> &'static str {
        match self {
            FT::Bool => "bool",
            FT::U8 => "u8",
            FT::I64 => "i64",
            FT::F64 => "f64",
            FT::Str => "String",
            FT::OptI32 => "Option<i32>",
            FT::VecStr => "Vec<String>",
            FT::Nested => "Inner",
            FT::VecOptI32 => "Vec<Option<i32>>",
        }
    }
    /// (Rust expression, JSON text) pairs at the corners of the domain
    fn values(&self) -> Vec<(&'static str, &'static str)> {
        match self {
            FT::Bool => vec![("true", "true"), ("false", "false")],
            FT::U8 => vec![("0u8", "0"), ("255u8", "255"), ("1u8", "1")],
            FT::I64 => vec![("0i64", "0"), ("-1i64", "-1"), ("9007199254740992i64", "9007199254740992"), ("-9007199254740992i64", "-9007199254740992"), ("i64::MIN", "-9223372036854775808")],
            FT::F64 => vec![("0.0f64", "0"), ("1.5f64", "1.5"), ("1e300f64", "1e300"), ("5e-324f64", "5e-324"), ("-2.5e-3f64", "-0.0025")],
            FT::Str => vec![("String::new()", "\"\""), ("\"\u{e9}\\\"\\\\\\n\u{1d11e}\".to_string()", "\"\u{e9}\\\"\\\\\\n\u{1d11e}\""), ("\"plain\".to_string()", "\"plain\"")],
            FT::OptI32 => vec![("None", "null"), ("Some(-5i32)", "-5"), ("Some(i32::MAX)", "2147483647")],
            FT::VecStr => vec![("Vec::<String>::new()", "[]"), ("vec![\"a\".to_string()]", "[\"a\"]"), ("vec![\"a\".to_string(), \"\".to_string()]", "[\"a\",\"\"]")],
            FT::VecOptI32 => vec![("Vec::<Option<i32>>::new()", "[]"), ("vec![None::<i32>]", "[null]"), ("vec![Some(1i32), None, Some(3), None]", "[1,null,3,null]")],
            FT::Nested => vec![("Inner { x: 1, y: None }", "{\"x\":1,\"y\":null}"), ("Inner { x: -7, y: Some(\"z\".to_string()) }", "{\"x\":-7,\"y\":\"z\"}")],
        }
    }
}

const RENAMES: [Option<&str>; 9] = [None, Some("plain"), Some(" lead"), Some("trail "), Some("with space"), Some("quo\\\"te"), Some("\u{43a}\u{43b}\u{44e}\u{447}"), Some("a\\\\b"), Some("{\\\"x\\\":1}")];

fn json_key(rust_lit_inner: &str) -> String {
    // the rename string as written inside a Rust string literal uses the same escapes JSON needs
    rust_lit_inner.to_string()
}

struct Gen {
    /// one test per line: (id, kind, source line)
    lines: Vec<(String, String)>,
    decls: String,
    n: usize,
}

impl Gen {
    fn named(&mut self, fields: &[FT], via_map: bool, renames: &[Option<&str>]) {
        let id = self.n;
        self.n += 1;
        let name = format!("T{}", id);
        let mut d = String::new();
        let derive = if via_map { "#[derive(Debug, PartialEq, Clone)]" } else { "#[derive(Debug, PartialEq, Clone, FromJson, IntoJson)]" };
        writeln!(d, "{}\nstruct {} {{", derive, name).unwrap();
        let mut keys = vec![];
        for (i, f) in fields.iter().enumerate() {
            let key = match renames.get(i).copied().flatten() {
                Some(r) => {
                    if !via_map {
                        writeln!(d, "    #[rename = \"{}\"]", r).unwrap();
                    }
                    json_key(r)
                }
                None => format!("f{}", i),
            };
            writeln!(d, "    f{}: {},", i, f.ty()).unwrap();
            keys.push(key);
        }
        writeln!(d, "}}").unwrap();
        if via_map {
            let maps: Vec<String> = keys.iter().enumerate().map(|(i, k)| format!("f{} => \"{}\"", i, k)).collect();
            writeln!(d, "json_map! {{ {}, {} }}", name, maps.join(", ")).unwrap();
        }
        self.decls.push_str(&d);
        let nvals = fields.iter().map(|f| f.values().len()).max().unwrap_or(1);
        for v in 0..nvals {
            let exprs: Vec<String> = fields.iter().enumerate().map(|(i, f)| format!("f{}: {}", i, f.values()[v % f.values().len()].0)).collect();
            let texts: Vec<String> = fields.iter().enumerate().map(|(i, f)| format!("\\\"{}\\\":{}", keys[i].replace('\\', "\\\\").replace("\\\\\\\\\"", "\\\\\\\""), f.values()[v % f.values().len()].1.replace('\\', "\\\\").replace('"', "\\\""))).collect();
            let _ = texts;
            // the expected JSON is assembled at run time from (key, json text) pairs to avoid double escaping
            let pairs: Vec<String> = fields.iter().enumerate().map(|(i, f)| format!("(\"{}\", r#\"{}\"#)", keys[i], f.values()[v % f.values().len()].1)).collect();
            let kind = format!("{} struct [{}] renames {:?} value #{}", if via_map { "json_map!" } else { "derive" }, fields.iter().map(|f| f.ty()).collect::<Vec<_>>().join(", "), &renames[..renames.len().min(fields.len())], v);
            let line = format!("    rt_obj(&mut st, {:?}, {} {{ {} }}, &[{}]);", kind, name, exprs.join(", "), pairs.join(", "));
            self.lines.push((kind, line));
        }
    }
    fn tuple(&mut self, fields: &[FT]) {
        let id = self.n;
        self.n += 1;
        let name = format!("T{}", id);
        writeln!(self.decls, "#[derive(Debug, PartialEq, Clone, FromJson, IntoJson)]\nstruct {}({});", name, fields.iter().map(|f| f.ty()).collect::<Vec<_>>().join(", ")).unwrap();
        let nvals = fields.iter().map(|f| f.values().len()).max().unwrap_or(1);
        for v in 0..nvals {
            let exprs: Vec<String> = fields.iter().map(|f| f.values()[v % f.values().len()].0.to_string()).collect();
            let parts: Vec<String> = fields.iter().map(|f| format!("r#\"{}\"#", f.values()[v % f.values().len()].1)).collect();
            let kind = format!("derive tuple struct ({}) value #{}", fields.iter().map(|f| f.ty()).collect::<Vec<_>>().join(", "), v);
            let line = format!("    rt_arr(&mut st, {:?}, {}({}), &[{}]);", kind, name, exprs.join(", "), parts.join(", "));
            self.lines.push((kind, line));
        }
        // arity is part of the shape: one element too few / too many must not deserialise
        let kind = format!("derive tuple struct ({}) wrong arity", fields.iter().map(|f| f.ty()).collect::<Vec<_>>().join(", "));
        let one = fields[0].values()[0].1;
        let line = format!("    arity::<{}>(&mut st, {:?}, {}, r#\"{}\"#);", name, kind, fields.len(), one);
        self.lines.push((kind, line));
    }
    fn enumeration(&mut self, nvar: usize, renames: &[Option<&str>]) {
        let id = self.n;
        self.n += 1;
        let name = format!("E{}", id);
        let mut d = format!("#[derive(Debug, PartialEq, Clone, FromJson, IntoJson)]\nenum {} {{\n", name);
        let mut keys = vec![];
        for i in 0..nvar {
            match renames.get(i).copied().flatten() {
                Some(r) => {
                    writeln!(d, "    #[rename = \"{}\"]", r).unwrap();
                    keys.push(r.to_string());
                }
                None => keys.push(format!("V{}", i)),
            }
            writeln!(d, "    V{},", i).unwrap();
        }
        d.push_str("}\n");
        self.decls.push_str(&d);
        for i in 0..nvar {
            let kind = format!("derive enum with {} variants renames {:?} variant #{}", nvar, &renames[..renames.len().min(nvar)], i);
            let line = format!("    rt_enum(&mut st, {:?}, {}::V{}, \"{}\");", kind, name, i, keys[i]);
            self.lines.push((kind, line));
        }
        let kind = format!("derive enum with {} variants: unknown name rejected", nvar);
        self.lines.push((kind.clone(), format!("    unknown_variant::<{}>(&mut st, {:?});", name, kind)));
    }
}

// ---------------- json! literals ----------------

#[derive(Clone, Debug)]
enum L {
    Null,
    True,
    One,
    Neg,
    Str,
    Expr,
    Var,
    Arr(Vec<L>, bool),
    Obj(Vec<L>, bool),
}

impl L {
    fn rust(&self) -> String {
        match self {
            L::Null => "null".into(),
            L::True => "true".into(),
            L::One => "1".into(),
            L::Neg => "-1.5".into(),
            L::Str => "\"s\"".into(),
            L::Expr => "(1 + 1)".into(),
            L::Var => "x.clone()".into(),
            L::Arr(v, tc) => format!("[{}{}]", v.iter().map(|e| e.rust()).collect::<Vec<_>>().join(", "), if *tc && !v.is_empty() { "," } else { "" }),
            L::Obj(v, tc) => format!("{{{}{}}}", v.iter().enumerate().map(|(i, e)| format!("\"k{}\": {}", i, e.rust())).collect::<Vec<_>>().join(", "), if *tc && !v.is_empty() { "," } else { "" }),
        }
    }
    fn text(&self) -> String {
        match self {
            L::Null => "null".into(),
            L::True => "true".into(),
            L::One => "1".into(),
            L::Neg => "-1.5".into(),
            L::Str => "\"s\"".into(),
            L::Expr => "2".into(),
            L::Var => "\"var\"".into(),
            L::Arr(v, _) => format!("[{}]", v.iter().map(|e| e.text()).collect::<Vec<_>>().join(",")),
            L::Obj(v, _) => format!("{{{}}}", v.iter().enumerate().map(|(i, e)| format!("\"k{}\":{}", i, e.text())).collect::<Vec<_>>().join(",")),
        }
    }
}

/// all literals with exactly `n` nodes and nesting depth <= d
fn lits(n: usize, d: usize, memo: &mut std::collections::HashMap<(usize, usize), Vec<L>>) -> Vec<L> {
    if let Some(v) = memo.get(&(n, d)) {
        return v.clone();
    }
    let mut out = vec![];
    if n == 1 {
        out = vec![L::Null, L::True, L::One, L::Neg, L::Str, L::Expr, L::Var];
        if d >= 1 {
            out.push(L::Arr(vec![], false));
            out.push(L::Obj(vec![], false));
        }
    } else if d >= 1 {
        // children: every composition of n-1 into 1..=3 parts
        fn comps(total: usize, parts: usize) -> Vec<Vec<usize>> {
            if parts == 1 {
                return vec![vec![total]];
            }
            let mut v = vec![];
            for first in 1..=total - (parts - 1) {
                for mut rest in comps(total - first, parts - 1) {
                    rest.insert(0, first);
                    v.push(rest);
                }
            }
            v
        }
        for parts in 1..=3.min(n - 1) {
            for comp in comps(n - 1, parts) {
                let mut seqs: Vec<Vec<L>> = vec![vec![]];
                for c in comp {
                    let opts = lits(c, d - 1, memo);
                    let mut next = vec![];
                    for s in &seqs {
                        for o in &opts {
                            let mut s2 = s.clone();
                            s2.push(o.clone());
                            next.push(s2);
                        }
                    }
                    seqs = next;
                }
                for s in seqs {
                    for tc in [false, true] {
                        out.push(L::Arr(s.clone(), tc));
                        out.push(L::Obj(s.clone(), tc));
                    }
                }
            }
        }
    }
    memo.insert((n, d), out.clone());
    out
}

const PRELUDE: &str = r##"// generated by /verif/checks (C14); do not edit
#![allow(dead_code, unused_imports, clippy::all)]
use humphrey_json::prelude::*;
use humphrey_json::{json, json_map, Value};

pub struct St { pub ran: usize, pub failed: usize }

fn norm(v: &Value) -> Value {
    match v {
        Value::Object(o) => { let mut o: Vec<(String, Value)> = o.iter().map(|(k, v)| (k.clone(), norm(v))).collect(); o.sort_by(|a, b| a.0.cmp(&b.0)); Value::Object(o) }
        Value::Array(a) => Value::Array(a.iter().map(norm).collect()),
        other => other.clone(),
    }
}
fn fail(st: &mut St, kind: &str, what: String) { st.failed += 1; println!("FAIL\t{}\t{}", kind, what.replace('\n', " ")); }

#[derive(Debug, PartialEq, Clone, FromJson, IntoJson)]
pub struct Inner { pub x: i32, pub y: Option<String> }

pub fn rt_obj<T: IntoJson + FromJson + PartialEq + std::fmt::Debug + Clone>(st: &mut St, kind: &str, v: T, pairs: &[(&str, &str)]) {
    st.ran += 1;
    let j = v.to_json();
    let want = Value::Object(pairs.iter().map(|(k, t)| (k.to_string(), Value::parse(t).expect("expected JSON parses"))).collect());
    if norm(&j) != norm(&want) { return fail(st, kind, format!("shape: to_json() = {} expected {}", j.serialize(), want.serialize())); }
    match T::from_json(&j) { Ok(b) if b == v => {}, other => return fail(st, kind, format!("round trip: from_json(to_json(v)) = {:?}, v = {:?}", other.ok(), v)) }
    // through text as well
    match Value::parse(j.serialize()).ok().and_then(|p| T::from_json(&p).ok()) { Some(b) if b == v => {}, other => fail(st, kind, format!("round trip through text: {:?} vs {:?}", other, v)) }
}
pub fn rt_only<T: IntoJson + FromJson + PartialEq + std::fmt::Debug + Clone>(st: &mut St, kind: &str, v: T, nkeys: usize) {
    st.ran += 1;
    let j = v.to_json();
    match &j { Value::Object(o) if o.len() == nkeys => {}, _ => return fail(st, kind, format!("shape: to_json() = {} is not an object with {} members", j.serialize(), nkeys)) }
    match T::from_json(&j) { Ok(b) if b == v => {}, other => return fail(st, kind, format!("round trip: from_json(to_json(v)) = {:?}, v = {:?}", other.ok(), v)) }
    match Value::parse(j.serialize()).ok().and_then(|p| T::from_json(&p).ok()) { Some(b) if b == v => {}, other => fail(st, kind, format!("round trip through text: {:?} vs {:?}", other, v)) }
}
pub fn rt_arr<T: IntoJson + FromJson + PartialEq + std::fmt::Debug + Clone>(st: &mut St, kind: &str, v: T, parts: &[&str]) {
    st.ran += 1;
    let j = v.to_json();
    let want = Value::Array(parts.iter().map(|t| Value::parse(t).expect("expected JSON parses")).collect());
    if norm(&j) != norm(&want) { return fail(st, kind, format!("shape: to_json() = {} expected {}", j.serialize(), want.serialize())); }
    match T::from_json(&j) { Ok(b) if b == v => {}, other => fail(st, kind, format!("round trip: {:?} vs {:?}", other.ok(), v)) }
}
pub fn arity<T: FromJson + std::fmt::Debug>(st: &mut St, kind: &str, n: usize, one: &str) {
    st.ran += 1;
    let el = Value::parse(one).unwrap();
    for k in [n - 1, n + 1] {
        let a = Value::Array((0..k).map(|_| el.clone()).collect());
        if k > 0 && T::from_json(&a).is_ok() && k != n { return fail(st, kind, format!("an array of {} elements deserialised into a tuple struct of {} fields", k, n)); }
    }
}
pub fn rt_enum<T: IntoJson + FromJson + PartialEq + std::fmt::Debug + Clone>(st: &mut St, kind: &str, v: T, name: &str) {
    st.ran += 1;
    let j = v.to_json();
    if j != Value::String(name.to_string()) { return fail(st, kind, format!("shape: to_json() = {} expected the string {:?}", j.serialize(), name)); }
    match T::from_json(&j) { Ok(b) if b == v => {}, other => fail(st, kind, format!("round trip: {:?} vs {:?}", other.ok(), v)) }
}
pub fn unknown_variant<T: FromJson + std::fmt::Debug>(st: &mut St, kind: &str) {
    st.ran += 1;
    if T::from_json(&Value::String("NoSuchVariant".into())).is_ok() || T::from_json(&Value::Number(0.0)).is_ok() { fail(st, kind, "an unknown variant name or a number deserialised into the enum".into()); }
}
pub fn lit(st: &mut St, src: &str, got: Value, text: &str) {
    st.ran += 1;
    match Value::parse(text) { Ok(w) if w == got => {}, Ok(w) => fail(st, "json! literal", format!("json!({}) = {} but the text {} parses to {}", src, got.serialize(), text, w.serialize())), Err(e) => fail(st, "json! literal", format!("reference text {} does not parse: {:?}", text, e)) }
}
"##;

fn write_crate(dir: &PathBuf, decls: &str, type_lines: &[(String, String)], lit_lines: &[(String, String)]) {
    let _ = std::fs::create_dir_all(dir.join("src"));
    std::fs::write(
        dir.join("Cargo.toml"),
        "[package]\nname = \"c14gen\"\nversion = \"0.0.0\"\nedition = \"2021\"\n\n[dependencies]\nhumphrey_json = { path = \"/repo/humphrey-json\" }\n\n[profile.dev]\nopt-level = 0\ndebug = 0\n\n[workspace]\n",
    )
    .unwrap();
    let _ = std::fs::copy("/repo/Cargo.lock", dir.join("Cargo.lock"));
    let mut types = String::from("use crate::common::*;\nuse humphrey_json::prelude::*;\nuse humphrey_json::{json, json_map, Value};\n");
    types.push_str(decls);
    types.push_str("\npub fn run(st: &mut St) {\n    let mut st = st;\n");
    for (_, l) in type_lines {
        types.push_str(&l.replace("&mut st", "&mut *st"));
        types.push('\n');
    }
    types.push_str("}\n");
    let mut lits = String::from("use crate::common::*;\nuse humphrey_json::{json, Value};\n\npub fn run(st: &mut St) {\n    let x = \"var\".to_string();\n    let _ = &x;\n");
    for (_, l) in lit_lines {
        lits.push_str(l);
        lits.push('\n');
    }
    lits.push_str("}\n");
    std::fs::write(dir.join("src").join("common.rs"), PRELUDE).unwrap();
    std::fs::write(dir.join("src").join("types.rs"), types).unwrap();
    std::fs::write(dir.join("src").join("lits.rs"), lits).unwrap();
    std::fs::write(dir.join("src").join("main.rs"), "mod common;\nmod lits;\nmod types;\nfn main() {\n    let mut st = common::St { ran: 0, failed: 0 };\n    types::run(&mut st);\n    lits::run(&mut st);\n    println!(\"DONE\\t{}\\t{}\", st.ran, st.failed);\n}\n").unwrap();
}

pub fn run(mut cx: Ctx) -> ! {
    cx.rule = "all type declarations of the bounded grammar (named structs with 1..2 (3) fields over {bool, u8, i64, f64, String, Option<i32>, Vec<String>, nested struct}, via derive and via json_map!, with rename strings incl. spaces, quotes, non-ASCII and JSON-special characters; tuple structs with 1..2 (3) fields; enums with 1..3 unit variants with and without rename) with corner values per field type, and all json! literals with <= 3 (4) nodes over {null, true, 1, -1.5, \"s\", (expr), variable, [..], {\"k\":..}} nested to depth 2 (3) with and without trailing commas, are emitted as one crate against /repo's humphrey_json, compiled and run; states = generated assertions, transitions = assertions executed; non-trivial = all".into();
    let quick = cx.quick();
    let mut g = Gen { lines: vec![], decls: String::new(), n: 0 };
    let maxf = cx.pick(2, 3);
    // named structs, derive and json_map!, all type tuples
    let mut tuples: Vec<Vec<FT>> = FTS.iter().map(|f| vec![*f]).collect();
    for a in FTS {
        for b in FTS {
            tuples.push(vec![a, b]);
            if maxf >= 3 {
                for c in FTS {
                    tuples.push(vec![a, b, c]);
                }
            }
        }
    }
    // a vector whose elements are optional (null elements keep their place), alone and next to other fields
    tuples.push(vec![FT::VecOptI32]);
    tuples.push(vec![FT::Str, FT::VecOptI32]);
    tuples.push(vec![FT::VecOptI32, FT::OptI32]);
    for (ti, t) in tuples.iter().enumerate() {
        for via_map in [false, true] {
            g.named(t, via_map, &[]);
            // renames rotate through the menu so that every rename string meets every position
            let r1 = RENAMES[1 + ti % (RENAMES.len() - 1)];
            let mut r2 = RENAMES[1 + (ti / 3) % (RENAMES.len() - 1)];
            if r2 == r1 {
                // two fields renamed to the same key are outside the documented mapping
                r2 = RENAMES[1 + (ti / 3 + 1) % (RENAMES.len() - 1)];
            }
            if ti % 2 == 0 || t.len() == 1 {
                g.named(t, via_map, &[r1, None, r2]);
            }
        }
        g.tuple(t);
    }
    for r in RENAMES.iter().skip(1) {
        g.named(&[FT::Str, FT::I64], false, &[*r, None]);
        g.named(&[FT::OptI32, FT::VecStr], false, &[None, *r]);
        g.named(&[FT::Bool], true, &[*r]);
    }
    // field identifiers that are Rust keywords (raw identifiers): the key spelling is not pinned, the round trip is;
    // json_map! keys that differ only in letter case are different keys
    g.decls.push_str("#[derive(Debug, PartialEq, Clone, FromJson, IntoJson)]\nstruct Raw1 { r#type: String, r#match: Option<i32>, plain: bool }\n");
    g.decls.push_str("#[derive(Debug, PartialEq, Clone, FromJson, IntoJson)]\nstruct Raw2 { #[rename = \"kind\"] r#type: String, r#loop: i64 }\n");
    g.decls.push_str("#[derive(Debug, PartialEq, Clone)]\nstruct Case1 { a: i64, b: i64, c: String }\njson_map! { Case1, a => \"id\", b => \"ID\", c => \"Id\" }\n");
    g.decls.push_str("#[derive(Debug, PartialEq, Clone)]\nstruct Case2 { a: Option<i32>, b: String }\njson_map! { Case2, a => \"x\", b => \"X\" }\n");
    for (kind, line) in [
        ("derive struct with raw-identifier fields value #0", "    rt_only(&mut st, \"derive struct with raw-identifier fields value #0\", Raw1 { r#type: \"t\".to_string(), r#match: Some(3), plain: true }, 3);"),
        ("derive struct with raw-identifier fields value #1", "    rt_only(&mut st, \"derive struct with raw-identifier fields value #1\", Raw1 { r#type: String::new(), r#match: None, plain: false }, 3);"),
        ("derive struct with a renamed raw-identifier field", "    rt_only(&mut st, \"derive struct with a renamed raw-identifier field\", Raw2 { r#type: \"t\".to_string(), r#loop: -7 }, 2);"),
        ("json_map! keys differing only in letter case value #0", "    rt_obj(&mut st, \"json_map! keys differing only in letter case value #0\", Case1 { a: 1, b: 2, c: \"x\".to_string() }, &[(\"id\", \"1\"), (\"ID\", \"2\"), (\"Id\", r#\"\"x\"\"#)]);"),
        ("json_map! keys differing only in letter case value #1", "    rt_obj(&mut st, \"json_map! keys differing only in letter case value #1\", Case2 { a: Some(5), b: \"s\".to_string() }, &[(\"x\", \"5\"), (\"X\", r#\"\"s\"\"#)]);"),
    ] {
        g.lines.push((kind.to_string(), line.to_string()));
    }
    for n in 1..=3 {
        g.enumeration(n, &[]);
        for (i, r) in RENAMES.iter().enumerate().skip(1) {
            g.enumeration(n, &[*r, None, RENAMES[1 + (i + 2) % (RENAMES.len() - 1)]]);
        }
    }
    // json! literals
    let (maxn, maxd) = if quick { (3, 2) } else { (4, 3) };
    let mut memo = std::collections::HashMap::new();
    let mut lit_lines = vec![];
    for n in 1..=maxn {
        for l in lits(n, maxd, &mut memo) {
            let src = l.rust();
            let line = format!("    lit(st, {:?}, json!({}), r#\"{}\"#);", src, src, l.text());
            lit_lines.push((format!("json!({})", src), line));
        }
    }
    lit_lines.push(("json!()".into(), "    lit(st, \"\", json!(), \"null\");".into()));
    cx.bound("fields_per_struct", maxf);
    cx.bound("literal_nodes", maxn);
    cx.bound("literal_depth", maxd);
    cx.stats.count("type_assertions_generated", g.lines.len() as u64);
    cx.stats.count("json_literals_generated", lit_lines.len() as u64);

    let dir = crate::report::root().join(".target").join("gen-c14");
    let target = crate::report::root().join(".target").join("gen-c14-target");
    let mut type_lines = g.lines.clone();
    let mut st = Stats::default();
    let mut attempts = 0;
    let output = loop {
        attempts += 1;
        write_crate(&dir, &g.decls, &type_lines, &lit_lines);
        let o = std::process::Command::new("cargo")
            .args(["build", "--offline", "--quiet"])
            .current_dir(&dir)
            .env("CARGO_TARGET_DIR", &target)
            .env("CARGO_NET_OFFLINE", "true")
            .env_remove("RUSTFLAGS")
            .output();
        let o = match o {
            Ok(o) => o,
            Err(e) => {
                eprintln!("MACHINERY: cannot run cargo for the generated crate: {}", e);
                std::process::exit(3);
            }
        };
        if o.status.success() {
            break std::process::Command::new(target.join("debug").join("c14gen")).output();
        }
        // attribute compile errors to generated lines and drop them
        let err = String::from_utf8_lossy(&o.stderr).to_string();
        let mut dropped = 0;
        let mut bad_lits = std::collections::BTreeSet::new();
        let mut bad_types = std::collections::BTreeSet::new();
        // only the primary location of each error (the `-->` line that directly follows `error...`)
        let el: Vec<&str> = err.lines().collect();
        for (i, l) in el.iter().enumerate() {
            if !l.starts_with("error") {
                continue;
            }
            let Some(loc) = el.get(i + 1).map(|x| x.trim()) else { continue };
            if let Some(rest) = loc.strip_prefix("--> src/lits.rs:") {
                if let Some(n) = rest.split(':').next().and_then(|x| x.parse::<usize>().ok()) {
                    bad_lits.insert(n);
                }
            }
            if let Some(rest) = loc.strip_prefix("--> src/types.rs:") {
                if let Some(n) = rest.split(':').next().and_then(|x| x.parse::<usize>().ok()) {
                    bad_types.insert(n);
                }
            }
        }
        let lit_base = 7; // first literal is on line 7 of lits.rs
        let mut keep = vec![];
        for (i, ll) in lit_lines.iter().enumerate() {
            if bad_lits.contains(&(i + lit_base)) {
                dropped += 1;
                st.violation("a json! literal of the grammar does not compile", || json!({"literal": ll.0, "compiler": err.lines().find(|x| x.starts_with("error")).unwrap_or("")}));
            } else {
                keep.push(ll.clone());
            }
        }
        lit_lines = keep;
        if !bad_types.is_empty() {
            // a declaration or a test line in types.rs: report the first error and stop using the type tests
            st.violation("a generated type declaration (derive / json_map!) does not compile", || json!({"compiler": err.lines().filter(|x| x.starts_with("error")).take(3).collect::<Vec<_>>(), "lines": bad_types.iter().take(5).collect::<Vec<_>>()}));
            type_lines.clear();
            g.decls.clear();
            dropped += 1;
        }
        if dropped == 0 || attempts > 4 {
            // a compiler error located in the generated sources that cannot be removed by dropping a line (the
            // shared declarations, a derive that panics): the typed mapping does not compile at all — a verdict.
            // Anything else (cargo resolution, linker, toolchain) is a machinery failure.
            let located: Vec<String> = el.iter().enumerate().filter(|(i, l)| l.starts_with("error") && el.get(i + 1).map_or(false, |x| x.trim().starts_with("--> src/"))).map(|(i, l)| format!("{} {}", l, el[i + 1].trim())).collect();
            if !located.is_empty() {
                st.violation("the generated program (derive / json_map! / json!) does not compile", || json!({"compiler": located.iter().take(3).collect::<Vec<_>>()}));
                cx.stats.merge(st);
                cx.cap("generated crate does not compile: nothing was run");
                cx.finish();
            }
            eprintln!("MACHINERY: generated crate does not build and the errors cannot be attributed:\n{}", err.chars().take(3000).collect::<String>());
            std::process::exit(3);
        }
    };
    let output = match output {
        Ok(o) => o,
        Err(e) => {
            eprintln!("MACHINERY: cannot run the generated program: {}", e);
            std::process::exit(3);
        }
    };
    let text = String::from_utf8_lossy(&output.stdout).to_string();
    let mut done = None;
    for l in text.lines() {
        let p: Vec<&str> = l.split('\t').collect();
        match p.first() {
            Some(&"FAIL") if p.len() >= 3 => {
                let kind = p[1];
                // signature: the kind of construct, without the per-case value index
                let class = if kind.starts_with("json!") {
                    let lit = p[2];
                    if lit.contains("null") { "json! literal evaluates to a different value than its text (literal contains null)".to_string() } else { "json! literal evaluates to a different value than its text".to_string() }
                } else {
                    let k = kind.split(" value #").next().unwrap_or(kind).split(" variant #").next().unwrap_or(kind);
                    let k = k.split(" [").next().unwrap_or(k).split(" (").next().unwrap_or(k).split(" with ").next().unwrap_or(k);
                    format!("{}: {}", k, p[2].split(':').next().unwrap_or(""))
                };
                st.violation(class, || json!({"construct": kind, "detail": p[2]}));
            }
            Some(&"DONE") if p.len() >= 3 => done = Some((p[1].parse::<u64>().unwrap_or(0), p[2].parse::<u64>().unwrap_or(0))),
            _ => {}
        }
    }
    let expected = (type_lines.len() + lit_lines.len()) as u64;
    match done {
        Some((ran, _failed)) if output.status.success() => {
            if ran != expected {
                eprintln!("MACHINERY: generated program ran {} assertions, {} were generated", ran, expected);
                std::process::exit(3);
            }
            st.evaluations += ran;
            st.states += ran;
            st.transitions += ran;
            st.nontrivial += ran;
        }
        _ => {
            st.violation("the generated program crashed", || json!({"status": format!("{:?}", output.status), "stderr": String::from_utf8_lossy(&output.stderr).chars().take(600).collect::<String>()}));
        }
    }
    st.sample(|| json!({"type_test": type_lines.get(type_lines.len() / 2).map(|l| l.1.trim().to_string()), "literal_test": lit_lines.get(lit_lines.len() / 2).map(|l| l.1.trim().to_string())}));
    st.outcome("generated-program-ran");
    cx.stats.merge(st);
    cx.assume("integers not exactly representable in f64, Option<Option<T>> and duplicate renamed keys are outside the documented mapping");
    cx.assume("object member order of to_json() is not demanded (compared order-insensitively)");
    cx.finish()
}
