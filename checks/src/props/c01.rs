//! C01 — one well-framed response per request on every connection, in order (threaded runner).
//! Generator, reference server and judge live in c01_gen.rs; the tokio runner in /verif/checks-tokio.
//! Panic isolation across connections is explored with the scheduler on a simulated listener.

pub use crate::props::c01_gen::*;
use crate::report::{show, Ctx, Stats};
use crate::sched::{self, Bound, Cfg};
use humphrey::http::cors::Cors;
use humphrey::http::method::Method;
use humphrey::http::{Request, Response, StatusCode};
use humphrey::stream::Stream;
use humphrey::verif::net::{ScriptSock, Step, TcpStream};
use humphrey::App;
use serde_json::json;
use std::sync::{Arc, Mutex};
use std::time::Duration;

type Log = Arc<Mutex<Vec<String>>>;

pub fn build_app(log: Log) -> App<Log> {
    fn note(route: &str, r: &Request, st: &Arc<Log>) {
        st.lock().unwrap().push(format!("{} {} {}?{} {} body={:?}", route, r.method, r.uri, r.query, r.version, r.content.as_ref().map(|b| show(b))));
    }
    App::new_with_config(1, log)
        .with_route("/r", |r: Request, st: Arc<Log>| {
            note("r", &r, &st);
            Response::new(StatusCode::OK, b"routed")
        })
        .with_route("/e", |r: Request, st: Arc<Log>| {
            note("e", &r, &st);
            Response::new(StatusCode::Created, r.content.unwrap_or_default())
        })
        .with_route("/empty", |r: Request, st: Arc<Log>| {
            note("empty", &r, &st);
            Response::empty(StatusCode::OK)
        })
        .with_route("/c", |r: Request, st: Arc<Log>| {
            note("c", &r, &st);
            Response::new(StatusCode::OK, b"cors")
        })
        .with_route("/p", |r: Request, st: Arc<Log>| -> Response {
            note("p", &r, &st);
            panic!("handler panic injected by the C01 harness")
        })
        .with_cors_config("/c", Cors::new().with_origin("https://a.test").with_method(Method::Get).with_header("X-T"))
}

pub fn serve_script(seq: &[R], plan: &Plan) -> Outcome {
    let log: Log = Arc::new(Mutex::new(vec![]));
    let mut app = build_app(log.clone());
    if plan.timeout_configured {
        app = app.with_connection_timeout(Some(Duration::from_secs(5)));
    }
    let parts = app.verif_into_parts();
    let mut bytes = vec![];
    let mut bounds = vec![];
    for r in seq {
        bytes.extend(r.bytes());
        bounds.push(bytes.len());
    }
    let mut steps = vec![];
    let stop_at = plan.timeout_before.map(|k| if k == 0 { 0 } else { bounds[k - 1] });
    let limit = stop_at.unwrap_or(bytes.len());
    let mut last = 0;
    for &c in plan.cuts.iter().filter(|&&c| c < limit) {
        if c > last {
            steps.push(Step::Seg(bytes[last..c].to_vec()));
            last = c;
        }
        if plan.pause_at == Some(c) {
            // nothing arrives for longer than the configured timeout, then the rest follows
            steps.push(Step::Timeout);
        }
    }
    if last < limit {
        steps.push(Step::Seg(bytes[last..limit].to_vec()));
    }
    if plan.timeout_before.is_some() {
        steps.push(Step::Timeout);
    }
    steps.push(Step::Eof);
    let sock = ScriptSock::new("198.51.100.7:5555".parse().unwrap(), steps);
    let s2 = sock.clone();
    let _call = crate::report::enter(&bytes);
    let r = std::panic::catch_unwind(std::panic::AssertUnwindSafe(|| parts.serve(Stream::Tcp(TcpStream::Script(s2)))));
    let g = sock.lock().unwrap();
    let l = log.lock().unwrap().clone();
    Outcome { out: g.out.clone(), log: l, panicked: r.is_err(), shutdown_or_dropped: g.dropped || g.shutdown }
}

// ---------------- panic isolation across connections (E1) ----------------

fn isolation(cx: &mut Ctx) {
    use humphrey::verif::rt::run_once;
    use humphrey::verif::sync::mpsc::channel;
    use humphrey::verif::thread;
    use std::io::{Read, Write};
    // three connections on a pool of two: one hits the panicking route, the others must be served normally
    let body = move |log: &Log| {
        let (tx, rx) = channel::<()>();
        let app = build_app(log.clone()).with_shutdown(rx);
        // App::new_with_config(1, ..) in build_app: rebuild with 2 workers is not possible from outside, so the
        // pool here has one worker plus its restart after the panic: the other connections are served by the
        // restarted worker, which is exactly the isolation claim
        let mut hs = vec![];
        for (i, path) in ["/r", "/p", "/r"].iter().enumerate() {
            let path = path.to_string();
            hs.push(
                thread::Builder::new()
                    .name(format!("client{}", i))
                    .spawn(move || {
                        let from = format!("127.0.0.1:{}", 5000 + i).parse().unwrap();
                        let Ok(mut s) = TcpStream::verif_connect_from(from, "127.0.0.1:8080".parse().unwrap()) else { return };
                        let _ = s.write_all(format!("GET {} HTTP/1.1\r\nHost: x\r\nConnection: close\r\n\r\n", path).as_bytes());
                        let mut buf = [0u8; 64];
                        while let Ok(n) = s.read(&mut buf) {
                            if n == 0 {
                                break;
                            }
                        }
                    })
                    .unwrap(),
            );
        }
        // shut down once all three clients have seen their connection end
        thread::Builder::new()
            .name("closer".into())
            .spawn(move || {
                for h in hs {
                    let _ = h.join();
                }
                let _ = tx.send(());
            })
            .unwrap();
        let _ = app.run("127.0.0.1:8080");
    };
    let run = |prefix: Vec<usize>| {
        let log: Log = Arc::new(Mutex::new(vec![]));
        let l2 = log.clone();
        let r = run_once(prefix, 100_000, &move || body(&l2));
        let l = log.lock().unwrap().clone();
        (r, l)
    };
    let check = |r: &humphrey::verif::rt::ExecResult, _l: &Vec<String>, choices: &[usize], s: &mut Stats| {
        s.evaluations += 1;
        s.nontrivial += 1;
        s.transitions += r.points.len() as u64;
        let ctx = |what: String| json!({"what": what, "schedule": choices, "blocked_at_end": format!("{:?}", r.blocked_at_end).chars().take(300).collect::<String>(),
            "server_wrote": r.conn_written.iter().zip(&r.conn_addrs).map(|(w, a)| format!("{}: {}", a[0].port(), show(&w[1][..w[1].len().min(50)]))).collect::<Vec<_>>()});
        if r.deadlock || r.step_cap_hit || r.root_panic.is_some() {
            s.violation("isolation: the server stops serving after a handler panic (a client never sees its connection end)", || ctx(format!("deadlock={} root_panic={:?}", r.deadlock, r.root_panic)));
            return;
        }
        for i in 0..3u16 {
            let Some(idx) = r.conn_addrs.iter().position(|a| a[0].port() == 5000 + i) else { continue };
            let out = &r.conn_written[idx][1];
            let got = read_responses(out);
            let ok = match (&got, i) {
                (Ok(g), 1) => g.is_empty(),
                (Ok(g), _) => g.len() == 1 && g[0].status == 200 && g[0].body == b"routed",
                _ => false,
            };
            if !ok {
                s.violation("isolation: a panicking handler affected another connection (or produced output itself)", || ctx(format!("connection from port {}: {:?}", 5000 + i, got.as_ref().map(|g| g.iter().map(|x| x.status).collect::<Vec<_>>()))));
                return;
            }
        }
        s.outcome("isolation-ok");
    };
    let mut cfg = Cfg::new(Bound::Deviation(cx.pick(2, 3)));
    cfg.max_steps = 100_000;
    cfg.wall = Duration::from_secs(cx.pick(20, 600));
    let mut st = Stats::default();
    let out = sched::explore(&cfg, &run, &check, &mut st);
    sched::die_on_machinery(&out, "C01 isolation");
    st.states += out.execs;
    if out.capped {
        cx.cap(format!("isolation scenario capped, completed deviation bound {:?}", out.completed_bound));
    }
    cx.extra.insert("isolation_schedules".into(), json!(out.execs));
    cx.stats.merge(st);
}

pub fn run(mut cx: Ctx) -> ! {
    cx.rule = "request sequences (all single requests of the full method x target x Connection x version product, bodies and 8 malformed shapes; all pairs first x second from menus of 29 x 41; triples in thorough) are sent to the real connection handler over a scripted socket under every segmentation plan (all in one segment, one segment per request, bytewise, every single cut (structural cuts for pairs), pairs of cuts in thorough) and with a connection timeout configured and the client going silent before each request; output is read back by a strict response-stream reader and compared with a reference server; a scheduler-explored scenario checks that a panicking handler costs only its own connection; states = distinct sequences, transitions = requests served; non-trivial = sequences of >= 2 requests".into();
    let quick = cx.quick();
    let mut st = Stats::default();
    run_seqs(&mut st, "singles", singles().into_iter().map(|r| vec![r]).collect(), !quick, true, true, &serve_script, "threaded");
    let mut pairs = vec![];
    for a in firsts() {
        for b in seconds() {
            pairs.push(vec![a.clone(), b]);
        }
    }
    run_seqs(&mut st, "pairs", pairs, false, true, true, &serve_script, "threaded");
    run_seqs(&mut st, "stale-state triples", stale_state_triples(), false, false, true, &serve_script, "threaded");
    if !quick {
        let f: Vec<R> = firsts();
        let mut triples = vec![];
        for a in &f {
            for b in &f {
                for c in seconds() {
                    triples.push(vec![a.clone(), b.clone(), c]);
                }
            }
        }
        run_seqs(&mut st, "triples", triples, false, false, true, &serve_script, "threaded");
    }
    cx.stats.merge(st);
    isolation(&mut cx);
    crate::tokio_twin::merge(&mut cx, "C01");
    cx.assume("threaded runtime; header set of 400/408 responses, reason phrases and the value of the response Connection header are not demanded");
    cx.finish()
}
