//! C12 — asynchronous WebSocket app: connect/message/disconnect exactly once and in order, unicast
//! and broadcast delivery, shutdown. Engine E1 with simulated sockets and virtual time; bounded by
//! *deviations* from the default scheduler, pacing-vector entries != 1 counting as deviations
//! (DESIGN.md §3 C12, §2.2).

use crate::props::c10::ref_encode;
use crate::props::c11::parse_server_frames;
use crate::report::{Ctx, Stats};
use crate::sched::{self, Bound, Cfg};
use humphrey::stream::Stream;
use humphrey::verif::net::{verif_pair, TcpStream};
use humphrey::verif::rt::{run_once, ExecResult};
use humphrey::verif::sync::mpsc::channel;
use humphrey::verif::thread;
use humphrey_ws::async_app::{AsyncStream, AsyncWebsocketApp};
use humphrey_ws::ping::Heartbeat;
use humphrey_ws::{Message, WebsocketStream};
use serde_json::json;
use std::io::Write;
use std::net::SocketAddr;
use std::sync::{Arc, Mutex};
use std::time::Duration;

const INTERVAL_MS: u64 = 10;
pub const BIG: usize = 300 * 1024;

fn big_payload() -> Vec<u8> {
    (0..BIG).map(|i| ((i * 31 + (i >> 9)) & 0xff) as u8).collect()
}

#[derive(Clone, Copy, Debug, PartialEq, Eq)]
pub enum Step {
    Connect(usize),
    /// one text message, answered by a unicast ack
    Text(usize),
    /// one text message whose handler broadcasts
    TextBc(usize),
    /// two text messages in one write
    Two(usize),
    /// a binary message fragmented into two frames, one write
    Frag(usize),
    /// the first fragment of a binary message; the rest follows in a later step (FragRest). Until then the
    /// event loop waits in the blocking continuation read: a server-side stall
    FragFirst(usize),
    FragRest(usize),
    Ping(usize),
    /// an unsolicited Pong
    Pong(usize),
    Close(usize),
    /// the client vanishes without a Close frame
    Abrupt(usize),
    ExtUni(usize),
    ExtBc,
    /// external broadcast of a binary message larger than a socket send buffer
    ExtBcBig,
    /// nothing happens for one pacing unit (responsive clients answer pending pings)
    Tick,
    Shutdown,
}

#[derive(Clone, Debug)]
pub struct Scn {
    pub p: usize,
    pub heartbeat: bool,
    pub clients: usize,
    pub steps: Vec<Step>,
    /// poll intervals the environment waits before each step
    pub pace: Vec<u8>,
    /// the simulated clients answer every Ping they receive with a Pong (checked after every step)
    pub responsive: bool,
}

#[derive(Clone, Debug, PartialEq)]
pub enum Ev {
    C(usize),
    M(usize, Vec<u8>),
    D(usize),
}

fn addr_of(c: usize) -> SocketAddr {
    SocketAddr::from(([10, 0, 0, 1], 1000 + c as u16))
}
fn client_of(a: SocketAddr) -> usize {
    (a.port() - 1000) as usize
}

fn cframe(op: u8, fin: bool, payload: &[u8]) -> Vec<u8> {
    ref_encode(fin, [false; 3], op, true, [7, 9, 11, 13], payload)
}

/// texts the scenario makes each client send, in order (per client)
pub fn sent_messages(scn: &Scn) -> Vec<Vec<Vec<u8>>> {
    let mut v = vec![vec![]; scn.clients];
    for (i, s) in scn.steps.iter().enumerate() {
        match *s {
            Step::Text(c) => v[c].push(format!("c{}m{}", c, i).into_bytes()),
            Step::TextBc(c) => v[c].push(format!("c{}m{}!", c, i).into_bytes()),
            Step::Two(c) => {
                v[c].push(format!("c{}m{}a", c, i).into_bytes());
                v[c].push(format!("c{}m{}b", c, i).into_bytes());
            }
            Step::Frag(c) | Step::FragFirst(c) => v[c].push(vec![0xf0, c as u8, i as u8, 1, 2, 3, 4]),
            _ => {}
        }
    }
    v
}

pub fn body(scn: &Scn, log: &Arc<Mutex<Vec<Ev>>>) {
    let (l1, l2, l3) = (log.clone(), log.clone(), log.clone());
    let mut app: AsyncWebsocketApp<()> = AsyncWebsocketApp::new_unlinked_with_config((), scn.p)
        .with_polling_interval(Some(Duration::from_millis(INTERVAL_MS)))
        .with_connect_handler(move |s: AsyncStream, _| {
            let c = client_of(s.peer_addr());
            l1.lock().unwrap().push(Ev::C(c));
            s.send(Message::new(format!("w{}", c)));
        })
        .with_message_handler(move |s: AsyncStream, m: Message, _| {
            let c = client_of(s.peer_addr());
            l2.lock().unwrap().push(Ev::M(c, m.bytes().to_vec()));
            if m.bytes().last() == Some(&b'!') {
                s.broadcast(Message::new(format!("bc:{}", String::from_utf8_lossy(m.bytes()))));
            } else if m.is_text() {
                s.send(Message::new(format!("ack:{}", String::from_utf8_lossy(m.bytes()))));
            } else {
                s.send(Message::new_binary([&[0xacu8][..], m.bytes()].concat()));
            }
        })
        .with_disconnect_handler(move |s: AsyncStream, _| {
            l3.lock().unwrap().push(Ev::D(client_of(s.peer_addr())));
        });
    if scn.heartbeat {
        // responsive clients get a timeout that comfortably covers ping -> pong -> poll (<= 3 intervals)
        let timeout = if scn.responsive { 6 * INTERVAL_MS + 5 } else { 3 * INTERVAL_MS + 5 };
        app = app.with_heartbeat(Heartbeat::new(Duration::from_millis(2 * INTERVAL_MS), Duration::from_millis(timeout)));
    }
    let hook = app.connect_hook().unwrap();
    let sender = app.sender();
    let (sd_tx, sd_rx) = channel();
    let app = app.with_shutdown(sd_rx);
    let scn2 = scn.clone();
    let env = thread::Builder::new()
        .name("env".into())
        .spawn(move || {
            let mut socks: Vec<Option<TcpStream>> = (0..scn2.clients).map(|_| None).collect();
            let mut inbuf: Vec<Vec<u8>> = vec![vec![]; scn2.clients];
            for (i, st) in scn2.steps.iter().enumerate() {
                if scn2.pace[i] > 0 {
                    thread::sleep(Duration::from_millis(INTERVAL_MS * scn2.pace[i] as u64));
                }
                if scn2.responsive {
                    // read whatever the server has written so far and answer every Ping
                    for c in 0..scn2.clients {
                        let Some(sock) = socks[c].as_mut() else { continue };
                        let _ = sock.set_nonblocking(true);
                        let mut tmp = [0u8; 4096];
                        while let Ok(n) = std::io::Read::read(sock, &mut tmp) {
                            if n == 0 {
                                break;
                            }
                            inbuf[c].extend_from_slice(&tmp[..n]);
                        }
                        let _ = sock.set_nonblocking(false);
                        // complete frames only; keep the remainder
                        loop {
                            let b = &inbuf[c];
                            if b.len() < 2 {
                                break;
                            }
                            let (len, hdr) = match b[1] & 0x7f {
                                126 if b.len() >= 4 => (u16::from_be_bytes([b[2], b[3]]) as usize, 4),
                                127 if b.len() >= 10 => (u64::from_be_bytes(b[2..10].try_into().unwrap()) as usize, 10),
                                126 | 127 => break,
                                n => (n as usize, 2),
                            };
                            if b.len() < hdr + len {
                                break;
                            }
                            let (op, payload) = (b[0] & 0xf, b[hdr..hdr + len].to_vec());
                            inbuf[c].drain(..hdr + len);
                            if op == 9 {
                                let _ = sock.write_all(&cframe(10, true, &payload));
                            }
                        }
                    }
                }
                match *st {
                    Step::Connect(c) => {
                        let (cl, sv) = verif_pair(addr_of(c), SocketAddr::from(([10, 0, 0, 2], 80)));
                        // where a message larger than a socket buffer goes out, the clients read what they are
                        // sent (a peer that never reads is outside the scenarios of this property; the server's
                        // blocking write would wait for it forever)
                        if scn2.steps.contains(&Step::ExtBcBig) && !scn2.steps.iter().any(|s| matches!(s, Step::Abrupt(_))) {
                            if let Ok(mut rd) = cl.try_clone() {
                                let _ = thread::Builder::new().name(format!("reader{}", c)).spawn(move || {
                                    let mut tmp = vec![0u8; 1 << 16];
                                    while let Ok(n) = std::io::Read::read(&mut rd, &mut tmp) {
                                        if n == 0 {
                                            break;
                                        }
                                    }
                                });
                            }
                        }
                        socks[c] = Some(cl);
                        hook.lock().unwrap().send(WebsocketStream::new(Stream::Tcp(sv))).ok();
                    }
                    Step::Text(c) => {
                        socks[c].as_mut().unwrap().write_all(&cframe(1, true, format!("c{}m{}", c, i).as_bytes())).ok();
                    }
                    Step::TextBc(c) => {
                        socks[c].as_mut().unwrap().write_all(&cframe(1, true, format!("c{}m{}!", c, i).as_bytes())).ok();
                    }
                    Step::Two(c) => {
                        let mut b = cframe(1, true, format!("c{}m{}a", c, i).as_bytes());
                        b.extend(cframe(1, true, format!("c{}m{}b", c, i).as_bytes()));
                        socks[c].as_mut().unwrap().write_all(&b).ok();
                    }
                    Step::Frag(c) => {
                        let mut b = cframe(2, false, &[0xf0, c as u8, i as u8, 1]);
                        b.extend(cframe(0, true, &[2, 3, 4]));
                        socks[c].as_mut().unwrap().write_all(&b).ok();
                    }
                    Step::FragFirst(c) => {
                        socks[c].as_mut().unwrap().write_all(&cframe(2, false, &[0xf0, c as u8, i as u8, 1])).ok();
                    }
                    Step::FragRest(c) => {
                        socks[c].as_mut().unwrap().write_all(&cframe(0, true, &[2, 3, 4])).ok();
                    }
                    Step::Pong(c) => {
                        socks[c].as_mut().unwrap().write_all(&cframe(10, true, b"u")).ok();
                    }
                    Step::Ping(c) => {
                        socks[c].as_mut().unwrap().write_all(&cframe(9, true, format!("p{}", i).as_bytes())).ok();
                    }
                    Step::Close(c) => {
                        socks[c].as_mut().unwrap().write_all(&cframe(8, true, &[0x03, 0xe8])).ok();
                    }
                    Step::Abrupt(c) => {
                        socks[c] = None;
                    }
                    Step::ExtUni(c) => sender.send(addr_of(c), Message::new(format!("xu{}", i))),
                    Step::ExtBc => sender.broadcast(Message::new(format!("xb{}", i))),
                    Step::ExtBcBig => sender.broadcast(Message::new_binary(big_payload())),
                    Step::Tick => {}
                    Step::Shutdown => {
                        sd_tx.send(()).ok();
                    }
                }
            }
            // keep the client ends alive until the app has stopped
            socks
        })
        .unwrap();
    app.run();
    let _socks = env.join();
}

pub fn run_scn(scn: &Scn, prefix: Vec<usize>) -> (ExecResult, Vec<Ev>) {
    let log = Arc::new(Mutex::new(vec![]));
    let l2 = log.clone();
    let s2 = scn.clone();
    let r = run_once(prefix, 100_000, &move || body(&s2, &l2));
    let l = log.lock().unwrap().clone();
    (r, l)
}

/// virtual time (in poll intervals) at which each step is performed
fn step_times(scn: &Scn) -> Vec<u64> {
    let mut t = 0u64;
    scn.pace
        .iter()
        .map(|&p| {
            t += p as u64;
            t
        })
        .collect()
}

pub fn check(scn: &Scn, r: &ExecResult, log: &[Ev], choices: &[usize], s: &mut Stats) {
    s.evaluations += 1;
    s.transitions += r.points.len() as u64;
    s.nontrivial += 1;
    let ctx = |what: String| {
        json!({"what": what, "P": scn.p, "heartbeat": scn.heartbeat, "responsive": scn.responsive, "steps": format!("{:?}", scn.steps), "pace": scn.pace, "schedule": choices,
               "dispatch_log": format!("{:?}", log).chars().take(500).collect::<String>(),
               "blocked_at_end": format!("{:?}", r.blocked_at_end).chars().take(300).collect::<String>()})
    };
    if let Some(p) = &r.root_panic {
        s.violation(format!("run() panicked: {}", crate::report::truncate(p, 60)), || ctx(p.clone()));
        return;
    }
    if r.step_cap_hit {
        s.violation("execution exceeded the step horizon", || ctx("step cap".into()));
        return;
    }
    if r.deadlock {
        s.violation("shutdown signal sent but run() never returns", || ctx("deadlock".into()));
        return;
    }
    let times = step_times(scn);
    let shutdown_t = *times.last().unwrap();
    let sent = sent_messages(scn);
    let tpos = |f: &dyn Fn(&Step) -> bool| scn.steps.iter().position(|x| f(x)).map(|i| times[i]);
    for c in 0..scn.clients {
        let connect_t = tpos(&|x| *x == Step::Connect(c));
        let close_t = tpos(&|x| *x == Step::Close(c) || *x == Step::Abrupt(c));
        let has_close_frame = scn.steps.contains(&Step::Close(c));
        let abrupt = scn.steps.contains(&Step::Abrupt(c));
        let mine: Vec<&Ev> = log
            .iter()
            .filter(|e| match e {
                Ev::C(x) | Ev::D(x) => *x == c,
                Ev::M(x, _) => *x == c,
            })
            .collect();
        // ---- dispatch log for this client ----
        let ncon = mine.iter().filter(|e| matches!(e, Ev::C(_))).count();
        let ndis = mine.iter().filter(|e| matches!(e, Ev::D(_))).count();
        if connect_t.is_none() {
            if !mine.is_empty() {
                s.violation("events dispatched for a client that never connected", || ctx(format!("client {}", c)));
            }
            continue;
        }
        if ncon != 1 {
            s.violation(format!("connect handler called {} times for one client", if ncon == 0 { "0".to_string() } else { "2+".to_string() }), || ctx(format!("client {} connects={}", c, ncon)));
            continue;
        }
        if scn.p == 1 && !matches!(mine[0], Ev::C(_)) {
            s.violation("a message or disconnect was dispatched before the client's connect", || ctx(format!("client {}", c)));
            continue;
        }
        let msgs: Vec<&Vec<u8>> = mine.iter().filter_map(|e| if let Ev::M(_, p) = e { Some(p) } else { None }).collect();
        let want: Vec<&Vec<u8>> = sent[c].iter().collect();
        // with a heartbeat our (never ponging) clients are dropped 3.5 intervals after connecting: what they send
        // later than 2 intervals after connecting may legitimately go unheard, but never out of order
        // a client whose message stalls the event loop past the heartbeat timeout may itself be judged timed out
        let stalls = scn.steps.contains(&Step::FragFirst(c));
        let firm = if scn.heartbeat && stalls {
            0
        } else if scn.heartbeat && !scn.responsive {
            let ct = connect_t.unwrap();
            let mut n = 0;
            for (i, st) in scn.steps.iter().enumerate() {
                let k = match st {
                    Step::Text(x) | Step::TextBc(x) | Step::Frag(x) if *x == c => 1,
                    Step::Two(x) if *x == c => 2,
                    _ => 0,
                };
                if k > 0 && times[i] <= ct + 2 {
                    n += k;
                }
            }
            n
        } else {
            want.len()
        };
        // per-client order is observable through the handler log only with a single handler thread; with more, two
        // handlers of one client may run concurrently and only exactly-once is demanded
        let ok = if scn.p == 1 {
            msgs.len() <= want.len() && msgs.len() >= firm && msgs[..] == want[..msgs.len()]
        } else {
            let mut a: Vec<&Vec<u8>> = msgs.clone();
            a.sort();
            let dup = a.windows(2).any(|w| w[0] == w[1]);
            !dup && msgs.len() >= firm && msgs.iter().all(|m| want.contains(m))
        };
        if !ok {
            let class = if msgs.len() < want.len() && (scn.p > 1 || msgs[..] == want[..msgs.len()]) && msgs.iter().all(|m| want.contains(m)) {
                "a client message was never dispatched"
            } else if msgs.len() > want.len() {
                "a client message was dispatched more than once"
            } else {
                "client messages dispatched out of order or altered"
            };
            s.violation(class, || ctx(format!("client {} sent {:?} dispatched {:?}", c, want.iter().map(|p| String::from_utf8_lossy(p).to_string()).collect::<Vec<_>>(), msgs.iter().map(|p| String::from_utf8_lossy(p).to_string()).collect::<Vec<_>>())));
            continue;
        }
        // heartbeat (no pongs from our clients): every client times out after 3.5 intervals
        let hb_timeout_t = if scn.heartbeat { connect_t.map(|t| t + 4) } else { None };
        // responsive clients answer every ping: the heartbeat must never drop them
        let hb_drops = scn.heartbeat && !scn.responsive;
        let must_disconnect = has_close_frame || (hb_drops && (abrupt || hb_timeout_t.map_or(false, |t| t + 3 <= shutdown_t)));
        let may_disconnect = has_close_frame || hb_drops || (scn.heartbeat && (abrupt || stalls));
        if ndis > 1 {
            s.violation("disconnect handler called more than once for one client", || ctx(format!("client {} disconnects={}", c, ndis)));
            continue;
        }
        if ndis == 1 && !may_disconnect {
            s.violation("disconnect dispatched for a client that is still connected", || ctx(format!("client {}", c)));
            continue;
        }
        if ndis == 0 && must_disconnect {
            s.violation("disconnect handler never called for a closed client", || ctx(format!("client {}", c)));
            continue;
        }
        if scn.p == 1 && ndis == 1 && !matches!(mine.last().unwrap(), Ev::D(_)) {
            // with a heartbeat timeout the client may still have messages queued; only a Close frame orders them
            if has_close_frame && !scn.heartbeat {
                s.violation("something was dispatched for a client after its disconnect", || ctx(format!("client {}", c)));
                continue;
            }
        }
        // ---- what the client received ----
        // simulated connections are numbered in creation order = order of the Connect steps
        let conn_idx = scn.steps.iter().filter(|x| matches!(x, Step::Connect(_))).position(|x| *x == Step::Connect(c)).unwrap();
        let bytes = r.conn_written.get(conn_idx).map(|w| w[1].clone()).unwrap_or_default();
        let frames = match parse_server_frames(&bytes) {
            Ok(f) => f,
            Err(e) => {
                s.violation("server wrote bytes that are not well-formed frames", || ctx(format!("client {}: {}", c, e)));
                continue;
            }
        };
        let never_leaves = close_t.is_none() && (!scn.heartbeat || (scn.responsive && !stalls));
        let mut acks: Vec<Vec<u8>> = vec![];
        let mut seen: Vec<Vec<u8>> = vec![];
        let mut closes = 0;
        let mut pongs: Vec<Vec<u8>> = vec![];
        let mut bad = false;
        for (op, _fin, payload) in &frames {
            match op {
                1 | 2 if payload.len() >= 100_000 => {
                    if *payload != big_payload() {
                        s.violation("a large broadcast arrived altered", || ctx(format!("client {} got {} bytes", c, payload.len())));
                        bad = true;
                        break;
                    }
                    if seen.iter().any(|p| p.len() >= 100_000) {
                        s.violation("a broadcast reached a client more than once", || ctx(format!("client {} got the large broadcast twice", c)));
                        bad = true;
                        break;
                    }
                    seen.push(payload.clone());
                }
                1 | 2 => {
                    if seen.contains(payload) {
                        let kind = if payload.starts_with(b"bc:") || payload.starts_with(b"xb") { "a broadcast reached a client more than once" } else { "a unicast was delivered more than once" };
                        s.violation(kind, || ctx(format!("client {} got {:?} twice", c, String::from_utf8_lossy(payload))));
                        bad = true;
                        break;
                    }
                    seen.push(payload.clone());
                    let text = String::from_utf8_lossy(payload).to_string();
                    if payload.first() == Some(&0xac) {
                        acks.push(payload[1..].to_vec());
                    } else if let Some(rest) = text.strip_prefix("ack:") {
                        acks.push(rest.as_bytes().to_vec());
                    } else if text.starts_with('w') {
                        if text != format!("w{}", c) {
                            s.violation("a unicast reached a client other than its addressee", || ctx(format!("client {} got {}", c, text)));
                            bad = true;
                            break;
                        }
                    } else if text.starts_with("xu") {
                        let i: usize = text[2..].parse().unwrap_or(usize::MAX);
                        if scn.steps.get(i) != Some(&Step::ExtUni(c)) {
                            s.violation("a unicast reached a client other than its addressee", || ctx(format!("client {} got {}", c, text)));
                            bad = true;
                            break;
                        }
                    } else if text.starts_with("bc:") || text.starts_with("xb") {
                    } else {
                        s.violation("client received a message nobody sent", || ctx(format!("client {} got {:?}", c, text)));
                        bad = true;
                        break;
                    }
                }
                8 => closes += 1,
                9 => {
                    if !scn.heartbeat {
                        s.violation("server sent a Ping although no heartbeat is configured", || ctx(format!("client {}", c)));
                        bad = true;
                        break;
                    }
                }
                10 => pongs.push(payload.clone()),
                _ => {}
            }
        }
        if bad {
            continue;
        }
        // acks: only for own messages (unicast reaches only its addressee), each at most once; all of them if the client stays
        for a in &acks {
            if !sent[c].contains(a) {
                s.violation("a unicast reached a client other than its addressee", || ctx(format!("client {} got an ack for {:?}", c, String::from_utf8_lossy(a))));
                bad = true;
                break;
            }
        }
        if bad {
            continue;
        }
        let expected_acks: Vec<Vec<u8>> = sent[c].iter().filter(|m| m.last() != Some(&b'!')).cloned().collect();
        if never_leaves {
            let mut a = acks.clone();
            let mut e = expected_acks.clone();
            if scn.p > 1 {
                a.sort();
                e.sort();
            }
            if a != e {
                s.violation("a unicast to a connected client was lost or reordered", || ctx(format!("client {} acks {:?} expected {:?}", c, a.iter().map(|p| String::from_utf8_lossy(p).to_string()).collect::<Vec<_>>(), e.iter().map(|p| String::from_utf8_lossy(p).to_string()).collect::<Vec<_>>())));
                continue;
            }
            if !seen.contains(&format!("w{}", c).into_bytes()) {
                s.violation("a unicast to a connected client was lost or reordered", || ctx(format!("client {} never got its welcome", c)));
                continue;
            }
        }
        // pongs answer pings one-to-one
        let want_pongs: Vec<Vec<u8>> = scn.steps.iter().enumerate().filter(|(_, x)| **x == Step::Ping(c)).map(|(i, _)| format!("p{}", i).into_bytes()).collect();
        if pongs != want_pongs {
            s.violation("Pings not answered one-to-one by Pongs", || ctx(format!("client {} pongs {:?}", c, pongs)));
            continue;
        }
        if closes > 1 {
            s.violation("more than one Close frame written to a client", || ctx(format!("client {} closes {}", c, closes)));
            continue;
        }
        if has_close_frame && closes != 1 && !scn.heartbeat {
            s.violation("client Close not answered by a Close", || ctx(format!("client {}", c)));
            continue;
        }
        // broadcasts: definite expectations only where pacing separates the events by >= 2 whole intervals
        for (i, st) in scn.steps.iter().enumerate() {
            if *st == Step::ExtBcBig {
                let got = seen.iter().any(|p| p.len() >= 100_000);
                let bt = times[i];
                if connect_t.map_or(false, |t| t + 2 <= bt) && never_leaves && shutdown_t >= bt + 5 && !got {
                    s.violation("a broadcast did not reach a client that was connected at that moment", || ctx(format!("client {} missed the large broadcast", c)));
                    bad = true;
                    break;
                }
                continue;
            }
            let (tag, by_handler) = match st {
                Step::ExtBc => (format!("xb{}", i), false),
                Step::TextBc(o) => (format!("bc:c{}m{}!", o, i), true),
                _ => continue,
            };
            let got = seen.contains(&tag.clone().into_bytes());
            let bt = times[i];
            let connected_well_before = connect_t.map_or(false, |t| t + 2 <= bt);
            let stays = never_leaves || close_t.map_or(false, |t| !scn.heartbeat && bt + 3 <= t && !by_handler);
            if connected_well_before && stays && shutdown_t >= bt + 5 && !got {
                s.violation("a broadcast did not reach a client that was connected at that moment", || ctx(format!("client {} missed {}", c, tag)));
                bad = true;
                break;
            }
            if !by_handler && connect_t.map_or(false, |t| t >= bt + 2) && got {
                s.violation("a broadcast reached a client that connected only later", || ctx(format!("client {} got {}", c, tag)));
                bad = true;
                break;
            }
        }
        if bad {
            continue;
        }
        // external unicast to a client that stays
        for (i, st) in scn.steps.iter().enumerate() {
            if *st == Step::ExtUni(c) {
                let got = seen.contains(&format!("xu{}", i).into_bytes());
                if never_leaves && connect_t.map_or(false, |t| t + 2 <= times[i]) && shutdown_t >= times[i] + 5 && !got {
                    s.violation("a unicast to a connected client was lost or reordered", || ctx(format!("client {} missed xu{}", c, i)));
                }
            }
        }
    }
    let sig: Vec<String> = log
        .iter()
        .map(|e| match e {
            Ev::C(c) => format!("C{}", c),
            Ev::M(c, _) => format!("M{}", c),
            Ev::D(c) => format!("D{}", c),
        })
        .collect();
    s.outcome(sig.join(","));
}

/// per-client scripts: Connect followed by up to `l` steps, optionally ended by Close
fn client_scripts(c: usize, l: usize) -> Vec<Vec<Step>> {
    let menu = [Step::Text(c), Step::Two(c), Step::Frag(c), Step::Ping(c), Step::TextBc(c)];
    let mut out = vec![];
    let mut bodies: Vec<Vec<Step>> = vec![vec![]];
    let mut frontier = bodies.clone();
    for _ in 0..l {
        let mut next = vec![];
        for b in &frontier {
            for m in &menu {
                let mut nb = b.clone();
                nb.push(*m);
                next.push(nb);
            }
        }
        bodies.extend(next.clone());
        frontier = next;
    }
    for b in bodies {
        for close in [false, true] {
            let mut s = vec![Step::Connect(c)];
            s.extend(b.iter().copied());
            if close {
                s.push(Step::Close(c));
            }
            out.push(s);
        }
    }
    out
}

/// all order-preserving merges of two sequences
fn merges(a: &[Step], b: &[Step]) -> Vec<Vec<Step>> {
    if a.is_empty() {
        return vec![b.to_vec()];
    }
    if b.is_empty() {
        return vec![a.to_vec()];
    }
    let mut out = vec![];
    for mut m in merges(&a[1..], b) {
        m.insert(0, a[0]);
        out.push(m);
    }
    for mut m in merges(a, &b[1..]) {
        m.insert(0, b[0]);
        out.push(m);
    }
    out
}

/// pacing vectors with at most `e` entries != 1 for k client steps; the final Shutdown step is
/// always paced `tail` intervals after the last client step
fn pacings(k: usize, e: usize, tail: u8) -> Vec<(Vec<u8>, usize)> {
    let mut out = vec![];
    fn rec(i: usize, k: usize, left: usize, cur: &mut Vec<u8>, used: usize, out: &mut Vec<(Vec<u8>, usize)>, tail: u8) {
        if i == k {
            let mut v = cur.clone();
            v.push(tail);
            out.push((v, used));
            return;
        }
        cur.push(1);
        rec(i + 1, k, left, cur, used, out, tail);
        cur.pop();
        if left > 0 {
            for alt in [0u8, 2] {
                cur.push(alt);
                rec(i + 1, k, left - 1, cur, used + 1, out, tail);
                cur.pop();
            }
        }
    }
    rec(0, k, e, &mut vec![], 0, &mut out, tail);
    out
}

pub struct Family {
    pub name: String,
    pub p: usize,
    pub heartbeat: bool,
    pub responsive: bool,
    pub clients: usize,
    pub scripts: Vec<Vec<Step>>,
    /// total deviation budget (pacing entries != 1 + non-default scheduler choices)
    pub d: usize,
    /// additionally run all 3^k pacing vectors under the default scheduler
    pub all_pacings_at_d0: bool,
}

pub fn families(quick: bool) -> Vec<Family> {
    let mut f = vec![];
    let d = if quick { 1 } else { 2 };
    for p in [1usize, 2] {
        let dd = if p == 1 { d + 1 } else { d };
        f.push(Family { name: format!("1 client, all scripts of <=2 steps, P={}", p), p, heartbeat: false, responsive: false, clients: 1, scripts: client_scripts(0, 2), d: dd, all_pacings_at_d0: true });
    }
    // core scenarios one deviation deeper
    let core: Vec<Vec<Step>> = vec![
        vec![Step::Connect(0), Step::Text(0), Step::Close(0)],
        vec![Step::Connect(0), Step::Two(0), Step::Close(0)],
        vec![Step::Connect(0), Step::TextBc(0), Step::Text(0)],
    ];
    for p in [1usize, 2] {
        f.push(Family { name: format!("1 client, core scripts, P={}", p), p, heartbeat: false, responsive: false, clients: 1, scripts: core.clone(), d: d + 1, all_pacings_at_d0: true });
    }
    // two clients: all order-preserving merges of script pairs, plus external sends
    let pairs: Vec<(Vec<Step>, Vec<Step>)> = vec![
        (vec![Step::Connect(0), Step::Text(0), Step::Close(0)], vec![Step::Connect(1), Step::Text(1)]),
        (vec![Step::Connect(0), Step::TextBc(0)], vec![Step::Connect(1), Step::Text(1), Step::Close(1)]),
        (vec![Step::Connect(0), Step::Two(0)], vec![Step::Connect(1), Step::ExtBc, Step::ExtUni(1)]),
        (vec![Step::Connect(0), Step::ExtUni(0), Step::Close(0)], vec![Step::Connect(1), Step::Frag(1), Step::ExtBc]),
    ];
    let mut two = vec![];
    for (a, b) in &pairs {
        two.extend(merges(a, b));
    }
    for p in [1usize, 2] {
        f.push(Family { name: format!("2 clients, merged scripts with external sends, P={}", p), p, heartbeat: false, responsive: false, clients: 2, scripts: two.clone(), d, all_pacings_at_d0: false });
    }
    if !quick {
        let mut three = vec![];
        let a = vec![Step::Connect(0), Step::TextBc(0)];
        let b = vec![Step::Connect(1), Step::Close(1)];
        let c = vec![Step::Connect(2), Step::Text(2)];
        for ab in merges(&a, &b) {
            three.extend(merges(&ab, &c));
        }
        f.push(Family { name: "3 clients, merged scripts, P=2".into(), p: 2, heartbeat: false, responsive: false, clients: 3, scripts: three, d: 1, all_pacings_at_d0: false });
    }
    // a client vanishes without a Close and without heartbeat: it stays in the table as a dead stream whose
    // writes fail; broadcasts and unicasts must still reach the live clients, whatever the table order
    let mut dead = vec![];
    for (gone, live) in [(0usize, 1usize), (1, 0)] {
        let a = vec![Step::Connect(gone), Step::Abrupt(gone)];
        for b in [vec![Step::Connect(live), Step::ExtBc, Step::TextBc(live)], vec![Step::Connect(live), Step::TextBc(live), Step::ExtBc, Step::ExtUni(live)]] {
            dead.extend(merges(&a, &b));
        }
    }
    for p in [1usize, 2] {
        f.push(Family { name: format!("2 clients, one vanishes (no heartbeat), broadcasts, P={}", p), p, heartbeat: false, responsive: false, clients: 2, scripts: dead.clone(), d: if quick { 1 } else { 2 }, all_pacings_at_d0: false });
    }
    let mut dead3 = vec![];
    for gone in 0..3usize {
        let mut steps: Vec<Step> = (0..3).map(Step::Connect).collect();
        steps.push(Step::Abrupt(gone));
        steps.push(Step::ExtBc);
        steps.push(Step::TextBc((gone + 1) % 3));
        dead3.push(steps);
    }
    f.push(Family { name: "3 clients, one vanishes (no heartbeat), broadcasts, P=1".into(), p: 1, heartbeat: false, responsive: false, clients: 3, scripts: dead3, d: 1, all_pacings_at_d0: false });
    // heartbeat on and clients that answer every ping: nobody may be dropped, however many clients there are
    for n in [2usize, 3] {
        let mut steps: Vec<Step> = (0..n).map(Step::Connect).collect();
        steps.push(Step::Text(n - 1));
        steps.extend(std::iter::repeat(Step::Tick).take(12));
        f.push(Family { name: format!("heartbeat with {} clients that answer every ping, P=1", n), p: 1, heartbeat: true, responsive: true, clients: n, scripts: vec![steps], d: 1, all_pacings_at_d0: false });
    }
    // a server-side stall longer than the heartbeat timeout (client 1's message stays incomplete for 9 intervals,
    // the loop waits in the blocking continuation read) while client 0 keeps ponging: client 0 must not be dropped
    // and what it sends afterwards is dispatched
    {
        let mut steps = vec![Step::Connect(0), Step::Connect(1), Step::Tick, Step::FragFirst(1)];
        steps.extend(std::iter::repeat(Step::Tick).take(8));
        steps.extend([Step::Pong(0), Step::FragRest(1), Step::Tick, Step::Text(0)]);
        f.push(Family { name: "heartbeat, event loop stalled past the timeout while a client keeps ponging, P=1".into(), p: 1, heartbeat: true, responsive: true, clients: 2, scripts: vec![steps], d: 1, all_pacings_at_d0: false });
    }
    // a broadcast larger than a socket send buffer, to clients that were idle at the last poll
    for p in [1usize, 2] {
        f.push(Family {
            name: format!("large broadcast to idle clients, P={}", p),
            p,
            heartbeat: false,
            responsive: false,
            clients: 2,
            scripts: vec![vec![Step::Connect(0), Step::Connect(1), Step::Tick, Step::ExtBcBig, Step::Tick, Step::Text(0)], vec![Step::Connect(0), Step::Text(0), Step::Connect(1), Step::ExtBcBig]],
            d: 1,
            all_pacings_at_d0: false,
        });
    }
    // heartbeat on: silent clients time out, vanished clients are detected, closes still give one disconnect
    let hb: Vec<Vec<Step>> = vec![
        vec![Step::Connect(0), Step::Text(0)],
        vec![Step::Connect(0), Step::Abrupt(0)],
        vec![Step::Connect(0), Step::Close(0)],
        vec![Step::Connect(0), Step::Text(0), Step::Abrupt(0)],
    ];
    for p in [1usize, 2] {
        f.push(Family { name: format!("heartbeat, 1 client, P={}", p), p, heartbeat: true, responsive: false, clients: 1, scripts: hb.clone(), d: d + 1, all_pacings_at_d0: true });
    }
    f.push(Family {
        name: "heartbeat, 2 clients, P=1".into(),
        p: 1,
        heartbeat: true,
        responsive: false,
        clients: 2,
        scripts: merges(&[Step::Connect(0), Step::Abrupt(0)], &[Step::Connect(1), Step::Text(1), Step::Close(1)]),
        d: 1,
        all_pacings_at_d0: false,
    });
    f
}

pub fn run(mut cx: Ctx) -> ! {
    cx.rule = "for every scenario (client scripts merged in every order-preserving way, pacing vector of poll intervals before each environment step) every execution of the real AsyncWebsocketApp::run + handler pool + WebsocketStreams on simulated sockets and a virtual clock that is within d deviations of the default scheduler is run; each pacing entry != 1 and each non-default scheduling choice costs one deviation; states = complete executions, transitions = scheduler decision points; every execution is non-trivial (>= 3 threads, >= 1 client)".into();
    let fams = families(cx.quick());
    let budget = Duration::from_secs(if cx.quick() { 40 } else { 1500 });
    let t0 = std::time::Instant::now();
    let mut per = vec![];
    for fam in &fams {
        // responsive clients only answer pings at environment steps: shut down before the silence could time them out
        let tail: u8 = if fam.responsive { 2 } else if fam.heartbeat { 9 } else { 5 };
        // one job per (script, pacing vector); jobs run in parallel, each explored by a single worker
        let mut jobs: Vec<(Scn, usize)> = vec![];
        for script in &fam.scripts {
            let mut steps = script.clone();
            steps.push(Step::Shutdown);
            let k = steps.len() - 1;
            let mut plist = pacings(k, fam.d, tail);
            if fam.all_pacings_at_d0 {
                for (v, _) in pacings(k, k, tail) {
                    if !plist.iter().any(|(w, _)| *w == v) {
                        plist.push((v, usize::MAX));
                    }
                }
            }
            for (pace, used) in plist {
                let sched_d = if used == usize::MAX { 0 } else { fam.d - used };
                jobs.push((Scn { p: fam.p, heartbeat: fam.heartbeat, clients: fam.clients, steps: steps.clone(), pace, responsive: fam.responsive }, sched_d));
            }
        }
        use rayon::prelude::*;
        let results: Vec<(Stats, sched::Out)> = jobs
            .par_iter()
            .map(|(scn, sched_d)| {
                let mut st = Stats::default();
                let mut cfg = Cfg::new(Bound::Deviation(*sched_d));
                cfg.max_steps = 100_000;
                cfg.recheck_every = 211;
                cfg.workers = 1;
                cfg.wall = budget.checked_sub(t0.elapsed()).unwrap_or(Duration::from_millis(1));
                let out = sched::explore(&cfg, &|p| run_scn(scn, p), &|r, o, c, s| check(scn, r, o, c, s), &mut st);
                (st, out)
            })
            .collect();
        let mut st = Stats::default();
        let (mut execs, mut capped, mut maxpts, mut rechecked) = (0u64, false, 0usize, 0u64);
        let vecs = jobs.len();
        for (s1, out) in results {
            sched::die_on_machinery(&out, &fam.name);
            execs += out.execs;
            maxpts = maxpts.max(out.max_points);
            rechecked += out.rechecked;
            capped |= out.capped;
            st.merge(s1);
        }
        st.states += execs;
        if capped {
            cx.cap(format!("{}: wall-clock budget exhausted before the family was complete", fam.name));
        }
        st.sample(|| json!({"family": fam.name, "example_script": format!("{:?}", fam.scripts[fam.scripts.len() / 2]), "executions": execs}));
        per.push(json!({"family": fam.name, "scripts": fam.scripts.len(), "pacing_vectors_x_scripts": vecs, "deviation_bound": fam.d, "executions": execs, "max_decision_points": maxpts, "replay_checked": rechecked, "complete": !capped}));
        cx.stats.merge(st);
    }
    cx.extra.insert("families".into(), json!(per));
    cx.bound("poll_interval_ms_virtual", INTERVAL_MS);
    cx.assume("poll interval None (busy loop) is not explored: it makes the schedule space cyclic; heartbeat pings are never answered by the simulated clients");
    cx.assume("handler log order equals dispatch (dequeue) order because there is no scheduling point between a worker's recv and the first statement of the handler");
    cx.finish()
}

fn parse_steps(txt: &str) -> Vec<Step> {
    // inverse of format!("{:?}", steps)
    let t = txt.trim().trim_start_matches('[').trim_end_matches(']');
    t.split(", ")
        .filter(|x| !x.is_empty())
        .map(|x| {
            let (name, arg) = match x.find('(') {
                Some(i) => (&x[..i], x[i + 1..x.len() - 1].parse::<usize>().unwrap_or(0)),
                None => (x, 0),
            };
            match name {
                "Connect" => Step::Connect(arg),
                "Text" => Step::Text(arg),
                "TextBc" => Step::TextBc(arg),
                "Two" => Step::Two(arg),
                "Frag" => Step::Frag(arg),
                "FragFirst" => Step::FragFirst(arg),
                "FragRest" => Step::FragRest(arg),
                "Pong" => Step::Pong(arg),
                "Ping" => Step::Ping(arg),
                "Close" => Step::Close(arg),
                "Abrupt" => Step::Abrupt(arg),
                "ExtUni" => Step::ExtUni(arg),
                "ExtBc" => Step::ExtBc,
                "ExtBcBig" => Step::ExtBcBig,
                "Tick" => Step::Tick,
                _ => Step::Shutdown,
            }
        })
        .collect()
}

/// `hv replay <file>`: re-runs exactly one recorded execution without the explorer.
pub fn replay(case: &serde_json::Value) -> i32 {
    let steps = parse_steps(case["steps"].as_str().unwrap_or(""));
    let pace: Vec<u8> = case["pace"].as_array().map(|a| a.iter().map(|x| x.as_u64().unwrap_or(1) as u8).collect()).unwrap_or_default();
    let schedule: Vec<usize> = case["schedule"].as_array().map(|a| a.iter().map(|x| x.as_u64().unwrap_or(0) as usize).collect()).unwrap_or_default();
    let clients = steps.iter().filter(|x| matches!(x, Step::Connect(_))).count();
    let scn = Scn { p: case["P"].as_u64().unwrap_or(1) as usize, heartbeat: case["heartbeat"].as_bool().unwrap_or(false), clients, steps, pace, responsive: case["responsive"].as_bool().unwrap_or(false) };
    let (r, log) = run_scn(&scn, schedule.clone());
    println!("scenario: {:?}", scn);
    println!("dispatch log: {:?}", log);
    for (i, p) in r.points.iter().enumerate() {
        println!("  decision {:3} t={:3}ms: enabled {:?} wants {:?} chose thread {}{}", i, p.now / 1_000_000, p.enabled, p.wants, p.enabled[p.chosen], if p.chosen != 0 { "   <-- deviation" } else { "" });
    }
    for (i, w) in r.conn_written.iter().enumerate() {
        println!("conn {}: client wrote {} bytes; server wrote: {}", i, w[0].len(), crate::report::show(&w[1]));
    }
    println!("deadlock={} virtual_time_ms={} blocked_at_end={:?}", r.deadlock, r.now / 1_000_000, r.blocked_at_end);
    let mut st = Stats::default();
    let choices: Vec<usize> = r.points.iter().map(|p| p.chosen).collect();
    check(&scn, &r, &log, &choices, &mut st);
    for (sig, _) in &st.violations {
        println!("VIOLATION (replayed) property=C12 {}", sig);
    }
    if st.violations.is_empty() {
        println!("replay: property held on this execution");
        0
    } else {
        1
    }
}
