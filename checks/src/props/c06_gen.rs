//! C06 — trees, path family, reference resolver and judge, shared by the threaded runner
//! (props/c06.rs) and the tokio runner (checks-tokio/src/t06.rs).

use crate::report::{show, Stats};
use humphrey::http::address::Address;
use humphrey::http::headers::Headers;
use humphrey::http::method::Method;
use humphrey::http::{Request, Response};
use serde_json::json;
use std::path::{Path, PathBuf};

const CANARY: &[u8] = b"CANARY-OUTSIDE-THE-ROOT";

/// (relative path, content) of the full tree; subsets are taken by index mask
pub const MENU: [(&str, &[u8]); 9] = [
    ("a.txt", b"content of a.txt"),
    ("b", b"no extension"),
    ("c.tar.gz", b"\x1f\x8b multi-dot"),
    ("sp ace.html", b"<p>space</p>"),
    ("\u{fc}.css", b"u-umlaut {}"),
    ("d/index.html", b"<index d>"),
    ("e/index.htm", b"<index e htm>"),
    ("f/.keep", b"keep"),
    ("d/x.js", b"js();"),
];

pub fn make_tree(base: &Path, mask: u32) -> PathBuf {
    let _ = std::fs::remove_dir_all(base);
    let root = base.join("parent").join("root");
    std::fs::create_dir_all(&root).unwrap();
    std::fs::write(base.join("parent").join("canary.txt"), CANARY).unwrap();
    std::fs::write(base.join("canary.txt"), CANARY).unwrap();
    std::fs::write(base.join("parent").join("rootx"), CANARY).unwrap();
    for (i, (p, c)) in MENU.iter().enumerate() {
        if mask & (1 << i) != 0 {
            let f = root.join(p);
            std::fs::create_dir_all(f.parent().unwrap()).unwrap();
            std::fs::write(f, c).unwrap();
        }
    }
    root
}

pub fn request(uri: &str) -> Request {
    Request { method: Method::Get, uri: uri.to_string(), query: String::new(), version: "HTTP/1.1".into(), headers: Headers::new(), content: None, address: Address::new("127.0.0.1:1").unwrap() }
}

/// strict percent-decoding (`%` must be followed by two hex digits)
fn pct_decode(s: &str) -> Option<Vec<u8>> {
    let s = s.as_bytes();
    let hexv = |c: u8| (c as char).to_digit(16).map(|d| d as u8);
    let mut out = vec![];
    let mut i = 0;
    while i < s.len() {
        if s[i] == b'%' {
            let (a, b) = (hexv(*s.get(i + 1)?)?, hexv(*s.get(i + 2)?)?);
            out.push(a << 4 | b);
            i += 3;
        } else {
            out.push(s[i]);
            i += 1;
        }
    }
    Some(out)
}

#[derive(Debug, PartialEq, Clone)]
pub enum Want {
    /// exactly this file
    File(PathBuf),
    Redirect(String),
    NotFound,
    /// the statement only demands that nothing outside the root is returned
    AnythingInside,
}

fn ctype(p: &Path) -> Option<&'static str> {
    match p.extension().and_then(|e| e.to_str()) {
        Some("html") | Some("htm") => Some("text/html"),
        Some("css") => Some("text/css"),
        Some("js") => Some("text/javascript"),
        Some("txt") => Some("text/plain"),
        _ => None,
    }
}

/// reference for serve_dir and the server's directory routes: `rest` is the path after the route prefix
pub fn resolve_dir(root: &Path, rest: &str, full_uri: &str) -> Want {
    let Some(dec) = pct_decode(rest) else { return Want::NotFound };
    let Ok(dec) = String::from_utf8(dec) else { return Want::NotFound };
    if dec.contains("..") || dec.contains(':') {
        return Want::NotFound;
    }
    if dec.contains('\0') {
        return Want::NotFound;
    }
    let rel = dec.trim_start_matches('/');
    if rel.is_empty() || rel.ends_with('/') {
        for idx in ["index.html", "index.htm"] {
            let p = root.join(format!("{}{}", rel, idx));
            if p.is_file() {
                return Want::File(p);
            }
        }
        return Want::NotFound;
    }
    let p = root.join(rel);
    if p.is_file() {
        Want::File(p)
    } else if p.is_dir() {
        Want::Redirect(format!("{}/", full_uri))
    } else {
        Want::NotFound
    }
}

/// reference for serve_as_file_path (no decoding)
pub fn resolve_literal(root: &Path, uri: &str) -> Want {
    if uri.contains("..") {
        return Want::AnythingInside;
    }
    if uri.contains('\0') {
        return Want::NotFound;
    }
    let rel = uri.strip_prefix('/').unwrap_or(uri);
    let p = PathBuf::from(format!("{}/{}", root.display(), rel));
    if p.is_file() && !uri.contains(':') {
        Want::File(p)
    } else if p.is_file() {
        Want::AnythingInside
    } else {
        Want::NotFound
    }
}

pub fn judge(s: &mut Stats, handler: &str, tree: u32, uri: &str, want: &Want, resp: std::thread::Result<Response>) {
    s.evaluations += 1;
    s.transitions += 1;
    let ctx = |what: String, r: Option<&Response>| {
        json!({"handler": handler, "tree_mask": tree, "uri": uri, "what": what, "expected": format!("{:?}", want), "status": r.map(|r| u16::from(r.status_code)), "body": r.map(|r| show(&r.body[..r.body.len().min(60)]))})
    };
    let r = match resp {
        Ok(r) => r,
        Err(_) => {
            s.violation(format!("[{}] handler panicked", handler), || ctx("panic".into(), None));
            return;
        }
    };
    if r.body.windows(6).any(|w| w == b"CANARY") {
        s.violation(format!("[{}] a file outside the directory was served", handler), || ctx("canary marker in the body".into(), Some(&r)));
        return;
    }
    let status = u16::from(r.status_code);
    match want {
        Want::AnythingInside => s.outcome("unspecified-but-inside"),
        Want::NotFound => {
            if status == 200 {
                s.violation(format!("[{}] content served for a path that names no file in the directory", handler), || ctx("200".into(), Some(&r)));
            } else {
                s.outcome("not-found");
            }
        }
        Want::Redirect(loc) => {
            if status != 301 || r.headers.get("Location") != Some(loc.as_str()) {
                s.violation(format!("[{}] a directory path without trailing slash is not redirected to the slash form", handler), || ctx(format!("Location {:?}", r.headers.get("Location")), Some(&r)));
            } else {
                s.outcome("redirect");
            }
        }
        Want::File(p) => {
            let bytes = std::fs::read(p).unwrap_or_default();
            if status != 200 || r.body != bytes {
                let class = if status == 200 { "the wrong file's bytes were served" } else { "a file inside the directory is not served by its own path" };
                s.violation(format!("[{}] {}", handler, class), || ctx(format!("expected {} bytes of {:?}", bytes.len(), p.file_name()), Some(&r)));
                return;
            }
            if let Some(ct) = ctype(p) {
                if r.headers.get("Content-Type").map(|v| v.split(';').next().unwrap_or("").trim()) != Some(ct) {
                    s.violation(format!("[{}] wrong Content-Type for the file's extension", handler), || ctx(format!("{:?} expected {}", r.headers.get("Content-Type"), ct), Some(&r)));
                    return;
                }
            }
            s.outcome("file");
        }
    }
}

pub const SEGS: [&str; 24] = [
    "a.txt", "b", "c.tar.gz", "sp ace.html", "\u{fc}.css", "d", "e", "f", "index.html", "x.js", ".", "..", "...", "", "%2e%2e", "%2E.", ".%2e", "%2f", "%5c", "%00", "%252e%252e", "%c0%ae", "..%2f", "C:",
];

pub fn encode_all(seg: &str) -> String {
    seg.bytes().map(|b| format!("%{:02X}", b)).collect()
}

pub fn paths(depth: usize) -> Vec<String> {
    let mut out = vec!["/".to_string(), "".to_string()];
    let mut frontier: Vec<String> = vec!["".into()];
    for _ in 0..depth {
        let mut next = vec![];
        for f in &frontier {
            for s in SEGS {
                next.push(format!("{}/{}", f, s));
            }
        }
        for p in &next {
            out.push(p.clone());
            out.push(format!("{}/", p));
        }
        frontier = next;
    }
    // absolute components and the sibling whose name extends the root's
    for extra in ["//etc/passwd", "/etc/passwd", "/../rootx", "/..%2frootx", "/%2e%2e/canary.txt", "/../canary.txt", "/../../canary.txt", "/d/../../canary.txt", "/d/..%2f..%2fcanary.txt", "/.%2e/canary.txt", "/%2e%2e%2fcanary.txt", "/..\\canary.txt", "/d/%2e%2e/%2e%2e/canary.txt", "/%252e%252e/canary.txt", "/%c0%ae%c0%ae/canary.txt", "/\0/../canary.txt"] {
        out.push(extra.to_string());
    }
    out
}

pub fn masks(quick: bool) -> Vec<u32> {
    if quick { vec![0x1ff, 0x000, 0x001, 0x020, 0x040, 0x080, 0x160, 0x01f, 0x1e0, 0x0a5, 0x15a, 0x121] } else { (0..40).map(|i| (i * 37 + 0x1ff * (i % 2)) as u32 & 0x1ff).chain([0x1ff, 0]).collect() }
}
