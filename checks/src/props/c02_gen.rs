//! C02 (generator and oracle, shared by the threaded and the tokio runner) — request parsing is faithful, segmentation-independent and round-trips.
//! Generator-as-oracle: a structured request is rendered to bytes; the structure *is* the expected
//! parse. Every request is parsed under every read plan of the bounded family (DESIGN.md §3 C02).

use crate::plans::Depth;
use humphrey::http::method::Method;
use humphrey::http::Request;
use std::net::{IpAddr, SocketAddr};

#[derive(Clone, Debug)]
pub struct Req {
    pub method: &'static str,
    pub path: String,
    /// None = no `?` in the target
    pub query: Option<String>,
    pub version: &'static str,
    /// (name as written, optional whitespace after the colon, value)
    pub headers: Vec<(String, String, String)>,
    pub body: Option<Vec<u8>>,
}

impl Req {
    pub fn new(method: &'static str, path: &str) -> Req {
        Req { method, path: path.into(), query: None, version: "HTTP/1.1", headers: vec![], body: None }
    }
    pub fn bytes(&self) -> Vec<u8> {
        let mut s = format!("{} {}", self.method, self.path);
        if let Some(q) = &self.query {
            s.push('?');
            s.push_str(q);
        }
        s.push(' ');
        s.push_str(self.version);
        s.push_str("\r\n");
        for (n, ows, v) in &self.headers {
            s.push_str(n);
            s.push(':');
            s.push_str(ows);
            s.push_str(v);
            s.push_str("\r\n");
        }
        let mut b = s.into_bytes();
        if let Some(body) = &self.body {
            b.extend(format!("Content-Length: {}\r\n", body.len()).bytes());
        }
        b.extend(b"\r\n");
        if let Some(body) = &self.body {
            b.extend(body);
        }
        b
    }
    /// positions just after each structural element (for focused cut plans)
    pub fn boundaries(&self) -> Vec<usize> {
        let b = self.bytes();
        let mut v = vec![1, 2];
        for (i, w) in b.windows(2).enumerate() {
            if w == b"\r\n" {
                v.extend([i, i + 1, i + 2, i + 3]);
            }
        }
        let head = b.len() - self.body.as_ref().map_or(0, |x| x.len());
        for k in 1..=(b.len() / 8192) {
            v.extend([8192 * k - 1, 8192 * k, 8192 * k + 1, head + 8192 * k - 1, head + 8192 * k, head + 8192 * k + 1]);
        }
        v.extend([b.len() - 1, b.len().saturating_sub(2)]);
        v
    }
}

pub const PEER: &str = "203.0.113.7:4242";

/// What the property says the parse of `r` must be; compared through the public API only.
pub fn mismatch(r: &Req, got: &Request, peer: SocketAddr) -> Option<String> {
    let m = match r.method {
        "GET" => Method::Get,
        "POST" => Method::Post,
        "PUT" => Method::Put,
        "DELETE" => Method::Delete,
        _ => Method::Options,
    };
    if got.method != m {
        return Some(format!("method {:?}", got.method));
    }
    if got.uri != r.path {
        return Some(format!("path {:?} expected {:?}", got.uri, r.path));
    }
    if got.query != r.query.clone().unwrap_or_default() {
        return Some(format!("query {:?} expected {:?}", got.query, r.query));
    }
    if got.version != r.version {
        return Some(format!("version {:?}", got.version));
    }
    // header fields: names case-insensitively, values exact, relative order of same-named fields
    let mut exp: Vec<(String, String)> = r.headers.iter().map(|(n, _, v)| (n.to_ascii_lowercase(), v.clone())).collect();
    if let Some(b) = &r.body {
        exp.push(("content-length".into(), b.len().to_string()));
    }
    if got.headers.len() != exp.len() {
        return Some(format!("{} header fields, expected {}", got.headers.len(), exp.len()));
    }
    let mut names: Vec<&String> = exp.iter().map(|e| &e.0).collect();
    names.sort();
    names.dedup();
    for n in names {
        let want: Vec<&str> = exp.iter().filter(|e| &e.0 == n).map(|e| e.1.as_str()).collect();
        // look the field up under three spellings: names match case-insensitively
        for spelling in [n.clone(), n.to_ascii_uppercase(), capitalise(n)] {
            let all = got.headers.get_all(spelling.as_str());
            if all != want {
                return Some(format!("header {:?}: values {:?}, expected {:?}", spelling, all, want));
            }
            if got.headers.get(spelling.as_str()) != want.first().copied() {
                return Some(format!("header {:?}: get() returned {:?}, expected {:?}", spelling, got.headers.get(spelling.as_str()), want.first()));
            }
        }
    }
    // cookies
    let cookie_field = exp.iter().find(|e| e.0 == "cookie").map(|e| e.1.clone());
    let want_cookies: Vec<(String, String)> = cookie_field
        .map(|v| v.split(';').filter_map(|p| p.split_once('=')).map(|(k, v)| (k.trim().to_string(), v.trim().to_string())).collect())
        .unwrap_or_default();
    let got_cookies: Vec<(String, String)> = got.get_cookies().into_iter().map(|c| (c.name, c.value)).collect();
    if got_cookies != want_cookies {
        return Some(format!("cookies {:?}, expected {:?}", got_cookies, want_cookies));
    }
    for (k, v) in &want_cookies {
        let first = want_cookies.iter().find(|c| &c.0 == k).map(|c| c.1.clone());
        if got.get_cookie(k).map(|c| c.value) != first {
            return Some(format!("get_cookie({:?}) != {:?}", k, v));
        }
    }
    // addresses: origin = last listed X-Forwarded-For address, earlier ones + the peer = proxies
    let xff = exp.iter().find(|e| e.0 == "x-forwarded-for").map(|e| e.1.clone());
    let listed: Vec<IpAddr> = xff.map(|v| v.split(',').filter_map(|a| a.trim().parse().ok()).collect()).unwrap_or_default();
    let (want_origin, want_proxies) = if listed.is_empty() {
        (peer.ip(), vec![])
    } else {
        let mut p: Vec<IpAddr> = listed[..listed.len() - 1].to_vec();
        p.push(peer.ip());
        (*listed.last().unwrap(), p)
    };
    if got.address.origin_addr != want_origin || got.address.proxies != want_proxies || got.address.port != peer.port() {
        return Some(format!("address {:?}, expected origin {} proxies {:?} port {}", got.address, want_origin, want_proxies, peer.port()));
    }
    if got.content != r.body {
        return Some(format!("body of {:?} bytes, expected {:?}", got.content.as_ref().map(|b| b.len()), r.body.as_ref().map(|b| b.len())));
    }
    None
}

fn capitalise(n: &str) -> String {
    let mut out = String::new();
    let mut up = true;
    for c in n.chars() {
        out.push(if up { c.to_ascii_uppercase() } else { c });
        up = c == '-';
    }
    out
}

/// equality the round trip must preserve: everything, with header order only within a name
pub fn same_request(a: &Request, b: &Request) -> bool {
    if a.method != b.method || a.uri != b.uri || a.query != b.query || a.version != b.version || a.content != b.content || a.address != b.address {
        return false;
    }
    if a.headers.len() != b.headers.len() {
        return false;
    }
    let mut names: Vec<String> = a.headers.iter().map(|h| h.name.to_string().to_ascii_lowercase()).collect();
    names.sort();
    names.dedup();
    names.iter().all(|n| a.headers.get_all(n.as_str()) == b.headers.get_all(n.as_str()))
}

pub const METHODS: [&str; 5] = ["GET", "POST", "PUT", "DELETE", "OPTIONS"];

pub fn body_pattern(n: usize) -> Vec<u8> {
    let special = [b'\r', b'\n', 0u8, 0xff, b' ', b':', b'G', 0x80];
    (0..n).map(|i| if i % 7 == 3 { special[(i / 7) % special.len()] } else { (i * 37 + 11) as u8 }).collect()
}

pub struct Families {
    pub list: Vec<(&'static str, Vec<Req>, Depth, usize)>,
    pub header_sequence_len: usize,
    pub many_header_counts: Vec<usize>,
    pub body_lengths: Vec<usize>,
}

pub fn families(quick: bool) -> Families {
    let depth = Depth::Pairs;
    let _ = quick;
    let mut out: Vec<(&'static str, Vec<Req>, Depth, usize)> = vec![];
    // A. start line product
    let paths = ["/", "/a", "/a/b.c", "/é", "/%20x", "/a//b"];
    let queries: [Option<&str>; 5] = [None, Some(""), Some("x=1&y"), Some("a?b"), Some("é=ü")];
    let mut reqs = vec![];
    for m in METHODS {
        for p in paths {
            for q in queries {
                for v in ["HTTP/1.1", "HTTP/1.0"] {
                    let mut r = Req::new(m, p);
                    r.query = q.map(|s| s.to_string());
                    r.version = v;
                    reqs.push(r);
                }
            }
        }
    }
    out.push(("start-line", reqs, depth, 200));

    // B. header sequences
    let names = ["Host", "X-A", "x-a", "X-a", "Accept", "Referer"];
    let values = ["", "v", "two words", "é", "漢字", "𝄞", "a:b: c", "x,y;z=\"q\""];
    let owses = ["", " ", "   ", "\t"];
    let mut pairs: Vec<(String, String, String)> = vec![];
    for n in names {
        for (vi, v) in values.iter().enumerate() {
            pairs.push((n.to_string(), owses[vi % owses.len()].to_string(), v.to_string()));
        }
    }
    let mut reqs = vec![];
    for a in &pairs {
        let mut r = Req::new("GET", "/h");
        r.headers = vec![a.clone()];
        reqs.push(r);
        for b in &pairs {
            let mut r = Req::new("POST", "/h");
            r.headers = vec![a.clone(), b.clone()];
            reqs.push(r);
        }
    }
    let small: Vec<&(String, String, String)> = pairs.iter().filter(|p| ["X-A", "x-a", "Host"].contains(&p.0.as_str()) && ["v", "", "é", "two words"].contains(&p.2.as_str())).collect();
    let l3 = if quick { 3 } else { 5 };
    let mut idx = vec![0usize; l3];
    'outer: loop {
        let mut r = Req::new("PUT", "/h3");
        r.query = Some("q".into());
        r.headers = idx.iter().map(|&i| small[i].clone()).collect();
        reqs.push(r);
        for p in (0..l3).rev() {
            idx[p] += 1;
            if idx[p] < small.len() {
                continue 'outer;
            }
            idx[p] = 0;
        }
        break;
    }
    out.push(("header-sequences", reqs, Depth::Single, 160));

    // C. large header sets: two names, the second on every contiguous run and every residue class
    let mut reqs = vec![];
    let counts: Vec<usize> = if quick { vec![20, 21, 32, 33, 34, 40] } else { vec![20, 21, 32, 33, 34, 40, 64] };
    for &n in &counts {
        let mut masks: Vec<Vec<bool>> = vec![];
        for i in 0..n {
            for j in (i + 1)..=n {
                if quick && (j - i) % 3 == 2 && n > 34 {
                    continue;
                }
                masks.push((0..n).map(|k| k >= i && k < j).collect());
            }
        }
        for m in 2..=4usize {
            for rr in 0..m {
                masks.push((0..n).map(|k| k % m == rr).collect());
            }
        }
        for mask in masks {
            let mut r = Req::new("GET", "/many");
            r.headers = mask.iter().enumerate().map(|(k, &b)| (if b { "X-B".to_string() } else { "X-A".to_string() }, " ".to_string(), format!("v{}", k))).collect();
            reqs.push(r);
        }
    }
    out.push(("many-headers", reqs, Depth::Single, 0));

    // D. cookies
    let cookie_pairs = ["a=1", "b=", "c=x=y", " d = 4 ", "é=ü", "a=2", "novalue"];
    let mut reqs = vec![];
    let mut lists: Vec<Vec<&str>> = vec![vec![]];
    for a in cookie_pairs {
        lists.push(vec![a]);
        for b in cookie_pairs {
            lists.push(vec![a, b]);
            if !quick || (a != b) {
                for c in ["a=1", "é=ü", "z=9"] {
                    lists.push(vec![a, b, c]);
                }
            }
        }
    }
    for l in lists {
        for sep in ["; ", ";", " ; "] {
            let mut r = Req::new("GET", "/c");
            if !l.is_empty() {
                r.headers = vec![("Cookie".into(), " ".into(), l.join(sep).trim().to_string())];
            }
            r.headers.push(("Host".into(), " ".into(), "x".into()));
            reqs.push(r);
        }
    }
    out.push(("cookies", reqs, Depth::Single, 0));

    // E. X-Forwarded-For lists with and without a space after the commas
    let addrs = ["8.8.8.8", "10.0.0.1", "2001:db8::1", "::1", "192.0.2.200"];
    let mut reqs = vec![];
    for sep in [",", ", "] {
        for a in addrs {
            let mut l1 = Req::new("GET", "/x");
            l1.headers = vec![("X-Forwarded-For".into(), " ".into(), a.to_string())];
            reqs.push(l1);
            for b in addrs {
                let mut l2 = Req::new("GET", "/x");
                l2.headers = vec![("x-forwarded-for".into(), " ".into(), [a, b].join(sep))];
                reqs.push(l2);
                for c in addrs {
                    let mut l3 = Req::new("POST", "/x");
                    l3.headers = vec![("Host".into(), " ".into(), "h".into()), ("X-Forwarded-For".into(), "".into(), [a, b, c].join(sep))];
                    l3.body = Some(b"b".to_vec());
                    reqs.push(l3);
                }
            }
        }
    }
    out.push(("x-forwarded-for", reqs, Depth::Single, 0));

    // F. bodies around the BufReader capacity
    let mut reqs = vec![];
    let lens: Vec<usize> = if quick { vec![0, 1, 2, 5, 8191, 8192, 8193, 65536] } else { vec![0, 1, 2, 5, 100, 8000, 8100, 8191, 8192, 8193, 16383, 16384, 16385, 65535, 65536] };
    for &n in &lens {
        for m in ["POST", "PUT"] {
            let mut r = Req::new(m, "/body");
            r.headers = vec![("Host".into(), " ".into(), "x".into())];
            r.body = Some(body_pattern(n));
            reqs.push(r);
            // header block padded so that the body starts exactly at / around the 8192 buffer boundary
            for pad_to in [8190usize, 8191, 8192, 8193] {
                let mut r = Req::new(m, "/body");
                let base = r.bytes().len() + format!("Content-Length: {}\r\n", n).len() + "X-Pad: \r\n".len();
                if pad_to > base {
                    r.headers = vec![("X-Pad".into(), " ".into(), "p".repeat(pad_to - base))];
                    r.body = Some(body_pattern(n));
                    reqs.push(r);
                }
            }
        }
    }
    out.push(("bodies", reqs, Depth::Single, 90));

    Families { list: out, header_sequence_len: l3, many_header_counts: counts, body_lengths: lens }
}
