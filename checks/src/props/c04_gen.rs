//! C04 — configuration family, request family, reference router and judge, shared by the threaded
//! runner (props/c04.rs) and the tokio runner (checks-tokio/src/t04.rs).

use crate::props::c01_gen::read_responses;
use crate::report::{show, Stats};
use serde_json::json;

#[derive(Clone, Debug)]
pub struct Cfg {
    /// (host pattern, http routes, websocket routes)
    pub hosts: Vec<(String, Vec<String>, Vec<String>)>,
    pub default_routes: Vec<String>,
    pub default_ws: Vec<String>,
    /// registration call per default route / per route of every host sub-app, by position
    /// (0 = with_route, 1 = with_stateless_route, 2 = with_path_aware_route); missing = 0
    pub kinds: Vec<u8>,
    /// default routes registered on the App itself (App::with_*route) instead of through with_default_subapp
    pub direct: bool,
}

impl Cfg {
    pub fn kind(&self, i: usize) -> u8 {
        self.kinds.get(i).copied().unwrap_or(0)
    }
}

/// route patterns as `&'static str` (with_path_aware_route wants one); interned so that the enumeration leaks each once
pub fn leak(r: &str) -> &'static str {
    use std::sync::{Mutex, OnceLock};
    static T: OnceLock<Mutex<std::collections::HashMap<String, &'static str>>> = OnceLock::new();
    let mut t = T.get_or_init(Default::default).lock().unwrap();
    if let Some(x) = t.get(r) {
        return x;
    }
    let l: &'static str = Box::leak(r.to_string().into_boxed_str());
    t.insert(r.to_string(), l);
    l
}

/// what a path-aware handler answers: its id if it was handed the pattern it was registered under
pub fn path_aware_answer(id: &str, registered: &str, handed: &str) -> Vec<u8> {
    if registered == handed { id.as_bytes().to_vec() } else { format!("{} was handed route {:?} instead of {:?}", id, handed, registered).into_bytes() }
}

/// `*` = any (possibly empty) string, every other char itself (the DP reference of C05)
fn glob(p: &[char], t: &[char]) -> bool {
    let mut dp = vec![false; t.len() + 1];
    dp[0] = true;
    for &pc in p {
        if pc == '*' {
            for j in 1..=t.len() {
                dp[j] = dp[j] || dp[j - 1];
            }
        } else {
            for j in (1..=t.len()).rev() {
                dp[j] = dp[j - 1] && t[j - 1] == pc;
            }
            dp[0] = false;
        }
    }
    dp[t.len()]
}

fn matches(p: &str, t: &str) -> bool {
    glob(&p.chars().collect::<Vec<_>>(), &t.chars().collect::<Vec<_>>())
}

/// reference router: Some(handler id) or None (404 / closed)
pub fn reference(cfg: &Cfg, host: Option<&str>, path: &str, ws: bool) -> Option<String> {
    if let Some(h) = host {
        if let Some((i, (_, routes, wsr))) = cfg.hosts.iter().enumerate().find(|(_, (hp, _, _))| matches(hp, h)) {
            let list = if ws { wsr } else { routes };
            if let Some(j) = list.iter().position(|r| matches(r, path)) {
                return Some(format!("h{}{}{}", i, if ws { "w" } else { "r" }, j));
            }
        }
    }
    let list = if ws { &cfg.default_ws } else { &cfg.default_routes };
    list.iter().position(|r| matches(r, path)).map(|j| format!("d{}{}", if ws { "w" } else { "r" }, j))
}

pub const HOSTS_REQ: [Option<&str>; 11] = [None, Some("x.test"), Some("y.test"), Some("x.test:80"), Some("other"), Some("x.y"), Some("x.test.test"), Some("x.x.test"), Some("bücher.test"), Some("www.日本.test"), Some("ü")];
// targets include repeats of the literal tails of the patterns (`*b` vs `/b/b`, `/*/b` vs `/x/b/b`): a matcher
// that does not retry its last wildcard fails exactly there
pub const TARGETS: [(&str, &str); 12] = [("/", "/"), ("/a", "/a"), ("/ab", "/ab"), ("/a/b", "/a/b"), ("/b", "/b"), ("/a?q", "/a"), ("/a/b?x=/b", "/a/b"), ("/x/b?/a", "/x/b"), ("/b/b", "/b/b"), ("/x/b/b", "/x/b/b"), ("/ab/ab", "/ab/ab"), ("/a/a", "/a/a")];

pub struct Case {
    pub host: Option<&'static str>,
    pub target: &'static str,
    pub path: &'static str,
    pub ws: bool,
    /// method, version and spelling of the Host field name (none of which the choice may depend on)
    pub line: String,
    pub bytes: Vec<u8>,
}

/// every request asked of one application
pub fn cases(with_ws: bool) -> Vec<Case> {
    let mut out = vec![];
    for host in HOSTS_REQ {
        for (target, path) in TARGETS {
            for ws in [false, true] {
                if ws && !with_ws {
                    continue;
                }
                for extra in ["", "X-Route: /a\r\nX-Host: x.test\r\n"] {
                    if !extra.is_empty() && !(target == "/ab" || target == "/a?q") {
                        continue;
                    }
                  for (method, version, hname) in [("GET", "1.1", "Host"), ("POST", "1.1", "host"), ("DELETE", "1.0", "HOST"), ("PUT", "1.1", "hOsT")] {
                    if method != "GET" && (ws || !extra.is_empty() || !matches!(target, "/a" | "/a/b?x=/b" | "/b/b" | "/")) {
                        continue;
                    }
                    let mut req = format!("{} {} HTTP/{}\r\n", method, target, version);
                    if let Some(h) = host {
                        req.push_str(&format!("{}: {}\r\n", hname, h));
                    }
                    req.push_str(extra);
                    if ws {
                        req.push_str("Upgrade: websocket\r\nConnection: Upgrade\r\n");
                    } else {
                        req.push_str("Connection: close\r\n");
                    }
                    req.push_str("\r\n");
                    out.push(Case { host, target, path, ws, line: format!("{} HTTP/{} {}", method, version, hname), bytes: req.into_bytes() });
                  }
                }
            }
        }
    }
    out
}

/// `served`: what the server wrote on the connection, or Err(()) if serving panicked
pub fn judge(s: &mut Stats, runtime: &str, cfg: &Cfg, c: &Case, served: Result<Vec<u8>, ()>) {
    s.evaluations += 1;
    s.transitions += 1;
    let want = reference(cfg, c.host, c.path, c.ws);
    let pre = if runtime.is_empty() { String::new() } else { format!("[{}] ", runtime) };
    let ctx = |what: String, out: &[u8]| json!({"what": what, "hosts": format!("{:?}", cfg.hosts), "default_routes": cfg.default_routes, "default_ws": cfg.default_ws, "registration_kinds": format!("{:?}", cfg.kinds), "registered_on_app": cfg.direct, "request_line": c.line, "request_host": c.host, "target": c.target, "websocket": c.ws, "server_wrote": show(&out[..out.len().min(200)]), "expected_handler": want});
    let out = match served {
        Ok(o) => o,
        Err(()) => {
            s.violation(format!("{}routing panicked", pre), || ctx("panic".into(), &[]));
            return;
        }
    };
    let got: Option<String> = if c.ws {
        if out.is_empty() { None } else { Some(String::from_utf8_lossy(&out).to_string()) }
    } else {
        match read_responses(&out) {
            Ok(g) if g.len() == 1 && g[0].status == 200 => Some(String::from_utf8_lossy(&g[0].body).to_string()),
            Ok(g) if g.len() == 1 && g[0].status == 404 => None,
            other => {
                s.violation(format!("{}routed request did not produce exactly one 200/404 response", pre), || ctx(format!("{:?}", other.map(|g| g.iter().map(|x| x.status).collect::<Vec<_>>())), &out));
                return;
            }
        }
    };
    if got != want {
        let class = match (&got, &want) {
            (Some(g), Some(w)) if g.as_bytes()[0] != w.as_bytes()[0] || (g.starts_with('h') && g.get(..2) != w.get(..2)) => "request handled by the wrong host's application",
            (Some(_), Some(_)) => "request handled by a later route although an earlier one matches (or vice versa)",
            (None, Some(_)) => "no handler chosen although a registered route matches",
            (Some(_), None) => "a handler answered although no route matches",
            _ => "?",
        };
        s.violation(format!("{}{}: {}", pre, if c.ws { "websocket" } else { "http" }, class), || ctx(format!("got {:?}", got), &out));
    } else {
        s.outcome(match &want { Some(w) if w.starts_with('h') => "host-route", Some(_) => "default-route", None => "no-route" });
    }
}

/// all vectors in {0,1,2}^n
pub fn kind_vectors(n: usize) -> Vec<Vec<u8>> {
    let mut out: Vec<Vec<u8>> = vec![vec![]];
    for _ in 0..n {
        out = out.into_iter().flat_map(|v| (0..3u8).map(move |k| { let mut w = v.clone(); w.push(k); w })).collect();
    }
    out
}

pub fn seqs(menu: &[&str], max: usize) -> Vec<Vec<String>> {
    let mut out: Vec<Vec<String>> = vec![vec![]];
    let mut frontier = out.clone();
    for _ in 0..max {
        let mut next = vec![];
        for f in &frontier {
            for m in menu {
                let mut n = f.clone();
                n.push(m.to_string());
                next.push(n);
            }
        }
        out.extend(next.clone());
        frontier = next;
    }
    out
}

/// (application, also ask WebSocket upgrades)
pub fn family(quick: bool) -> Vec<(Cfg, bool)> {
    let pats_small = ["/a", "/a*", "/*", "*b", "/*/b"];
    let pats_full = ["/", "/a", "/a*", "/*", "*", "/a/*", "*b", "/*/b", "/**", "/a?q"];
    let hosts = ["x.test", "*.test", "x.*", "x.test:80"];
    let mut cfgs: Vec<(Cfg, bool)> = vec![];
    // default application only: all route lists of length <= 2 (3) over the full pattern menu, plain and websocket
    for l in seqs(&pats_full, if quick { 2 } else { 3 }) {
        cfgs.push((Cfg { hosts: vec![], default_routes: l.clone(), default_ws: l.iter().rev().cloned().collect(), kinds: vec![], direct: false }, true));
    }
    // one host: host x routes(<=2) x default routes(<=2)
    let rl = seqs(&pats_small, 2);
    for h in hosts {
        for hr in &rl {
            for dr in &rl {
                cfgs.push((Cfg { hosts: vec![(h.to_string(), hr.clone(), hr.clone())], default_routes: dr.clone(), default_ws: dr.clone(), kinds: vec![], direct: false }, hr.len() + dr.len() <= 2));
            }
        }
    }
    // two hosts (shadowing and overlap arise by construction): all ordered pairs of hosts x route lists
    let rl2 = seqs(&pats_small, 2);
    let dl2 = seqs(&pats_small, if quick { 1 } else { 2 });
    for h1 in hosts {
        for h2 in hosts {
            for r1 in &rl2 {
                for r2 in &rl2 {
                    for d in &dl2 {
                        cfgs.push((Cfg { hosts: vec![(h1.to_string(), r1.clone(), r1.clone()), (h2.to_string(), r2.clone(), r2.clone())], default_routes: d.clone(), default_ws: d.clone(), kinds: vec![], direct: false }, false));
                    }
                }
            }
        }
    }
    // host patterns with multi-byte characters (lengths in bytes and in characters differ), asked with the
    // multi-byte Host values of HOSTS_MB
    for h in ["bücher.test", "*.日本.test", "*ü*"] {
        for r in &seqs(&pats_small, 1) {
            cfgs.push((Cfg { hosts: vec![(h.to_string(), r.clone(), r.clone()), ("*.test".into(), vec!["/*".into()], vec![])], default_routes: vec!["/a".into()], default_ws: vec!["/a".into()], kinds: vec![], direct: false }, true));
        }
    }
    // registration API: the same route lists registered through every mix of with_route / with_stateless_route /
    // with_path_aware_route, on the App itself and through a sub-app (registration order must hold across kinds)
    for direct in [true, false] {
        for l in seqs(&pats_small, if quick { 2 } else { 3 }) {
            for kinds in kind_vectors(l.len()) {
                if !direct && kinds.iter().all(|&k| k == 0) {
                    continue; // already in the first family
                }
                cfgs.push((Cfg { hosts: vec![], default_routes: l.clone(), default_ws: if direct { l.clone() } else { vec![] }, kinds: kinds.clone(), direct }, direct && kinds.iter().all(|&k| k == 0)));
                if l.len() == 2 {
                    cfgs.push((Cfg { hosts: vec![("*.test".into(), l.clone(), vec![])], default_routes: l.iter().rev().cloned().collect(), default_ws: vec![], kinds, direct }, false));
                }
            }
        }
    }
    if !quick {
        // three hosts with single-route lists
        for h1 in hosts {
            for h2 in hosts {
                for h3 in hosts {
                    for r in &seqs(&pats_small, 1) {
                        cfgs.push((Cfg { hosts: vec![(h1.into(), r.clone(), vec![]), (h2.into(), vec!["/*".into()], vec![]), (h3.into(), r.clone(), vec![])], default_routes: vec!["/a".into()], default_ws: vec![], kinds: vec![], direct: false }, false));
                    }
                }
            }
        }
    }
    cfgs
}
