//! C16 — the file cache returns only the latest bytes for the same (host, path) key and keeps its
//! size and time limits. All operation histories up to a depth on the real `Cache` with a virtual
//! clock, handler-level histories with changing files, and scheduler exploration of concurrent
//! handler calls through the RwLock (DESIGN.md §3 C16).

use crate::props::c09::{request_of, state_from};
use crate::props::c02::Req;
use crate::report::{show, Ctx, Stats};
use crate::sched::{self, Bound, Cfg};
use humphrey::http::mime::MimeType;
use humphrey::verif::rt::run_once;
use humphrey::verif::thread;
use humphrey::verif::time::set_virtual_clock;
use humphrey_server::cache::Cache;
use humphrey_server::r#static::{directory_handler, file_handler};
use humphrey_server::server::server::AppState;
use rayon::prelude::*;
use serde_json::json;
use std::sync::{Arc, Mutex};

#[derive(Clone, Copy, Debug, PartialEq)]
pub enum Op {
    /// key index 0..3, host 0..2, size class 0..3
    Set(usize, usize, usize),
    Tick,
}

const KEYS: [&str; 3] = ["/a", "/b", "/a/"];
const T0: u64 = 1_700_000_000;

fn cache_with(limit: usize, time: usize) -> Cache {
    let conf = format!("server {{\n  log {{\n    console false\n  }}\n  cache {{\n    size {}\n    time {}\n  }}\n}}", limit, time);
    let tree = humphrey_server::config::tree::parse_conf(&conf, "c").unwrap();
    let config = humphrey_server::config::config::Config::from_tree(tree).unwrap();
    Cache::from(&config)
}

fn mime_of(v: usize) -> MimeType {
    [MimeType::TextHtml, MimeType::TextPlain, MimeType::ApplicationJson][v % 3]
}

fn content(version: usize, size: usize) -> Vec<u8> {
    (0..size).map(|i| ((version * 31 + i * 7 + 1) & 0xff) as u8).collect()
}

/// replays one history on a fresh real cache, checking every observation after every step
pub fn run_history(s: &mut Stats, limit: usize, tl: usize, hist: &[Op]) {
    let sizes = [0usize, (limit + 1) / 2, limit];
    let mut cache = cache_with(limit, tl);
    let mut now = T0;
    set_virtual_clock(Some(now));
    // reference: latest stored (data, mime, time) per (key, host)
    let mut latest: Vec<Vec<Option<(Vec<u8>, MimeType, u64)>>> = vec![vec![None; 2]; 3];
    s.evaluations += 1;
    s.states += 1;
    if hist.iter().filter(|o| matches!(o, Op::Set(..))).count() >= 2 {
        s.nontrivial += 1;
    }
    let ctx = |what: String, upto: usize| json!({"what": what, "size_limit": limit, "time_limit": tl, "history": format!("{:?}", &hist[..=upto.min(hist.len() - 1)])});
    for (step, op) in hist.iter().enumerate() {
        s.transitions += 1;
        let r = std::panic::catch_unwind(std::panic::AssertUnwindSafe(|| match *op {
            Op::Tick => {}
            Op::Set(k, h, sz) => {
                let _call = crate::report::enter(format!("Cache::set({}, host {}, {} bytes) as operation {} of a history", KEYS[k], h, sizes[sz], step + 1).as_bytes());
                cache.set(KEYS[k], h, content(step + 1, sizes[sz]), mime_of(step + 1))
            }
        }));
        if r.is_err() {
            s.violation("cache operation panicked", || ctx("panic in set".into(), step));
            set_virtual_clock(None);
            return;
        }
        match *op {
            Op::Tick => {
                now += 1;
                set_virtual_clock(Some(now));
            }
            Op::Set(k, h, sz) => {
                latest[k][h] = Some((content(step + 1, sizes[sz]), mime_of(step + 1), now));
                // an item no larger than the limit is retrievable immediately after being stored
                let ok = cache.get(KEYS[k], h).map_or(false, |it| it.data == content(step + 1, sizes[sz]));
                if !ok {
                    s.violation("an item no larger than the limit is not retrievable right after being stored", || ctx(format!("set({}, host {}, {} bytes)", KEYS[k], h, sizes[sz]), step));
                    set_virtual_clock(None);
                    return;
                }
            }
        }
        let mut total = 0usize;
        for k in 0..3 {
            for h in 0..2 {
                let got = std::panic::catch_unwind(std::panic::AssertUnwindSafe(|| cache.get(KEYS[k], h).map(|it| (it.data.clone(), it.mime_type, it.route.clone(), it.host))));
                let got = match got {
                    Ok(g) => g,
                    Err(_) => {
                        s.violation("cache lookup panicked", || ctx(format!("get({}, {})", KEYS[k], h), step));
                        set_virtual_clock(None);
                        return;
                    }
                };
                if let Some((data, mime, route, host)) = got {
                    total += data.len();
                    match &latest[k][h] {
                        None => {
                            s.violation("lookup returned data for a key that was never stored", || ctx(format!("get({}, {}) -> entry for ({}, {})", KEYS[k], h, route, host), step));
                            set_virtual_clock(None);
                            return;
                        }
                        Some((d, m, t)) => {
                            if &data != d || mime.to_string() != m.to_string() {
                                let class = if (0..3).any(|k2| (0..2).any(|h2| (k2, h2) != (k, h) && latest[k2][h2].as_ref().map_or(false, |x| x.0 == data && !data.is_empty()))) {
                                    "lookup returned another entry's data"
                                } else {
                                    "lookup returned bytes other than the most recently stored ones for the key"
                                };
                                s.violation(class, || ctx(format!("get({}, {}) -> {} bytes {:?}", KEYS[k], h, data.len(), show(&data[..data.len().min(8)])), step));
                                set_virtual_clock(None);
                                return;
                            }
                            if now - t > tl as u64 {
                                s.violation("lookup returned data older than the time limit", || ctx(format!("get({}, {}) stored {} s ago, limit {} s", KEYS[k], h, now - t, tl), step));
                                set_virtual_clock(None);
                                return;
                            }
                        }
                    }
                }
            }
        }
        if total > limit {
            s.violation("total size of retrievable entries exceeds the size limit", || ctx(format!("{} > {}", total, limit), step));
            set_virtual_clock(None);
            return;
        }
    }
    set_virtual_clock(None);
    s.outcome(format!("history-ok L={} T={}", limit, tl));
}

fn histories(st: &mut Stats, depth: usize) {
    let mut alphabet = vec![Op::Tick];
    for k in 0..3 {
        for h in 0..2 {
            for sz in 0..3 {
                alphabet.push(Op::Set(k, h, sz));
            }
        }
    }
    let cfgs: Vec<(usize, usize)> = vec![(0, 0), (1, 1), (8, 0), (8, 1), (8, 60), (65536, 1)];
    // parallel over (config, first two ops)
    let mut jobs = vec![];
    for &c in &cfgs {
        for a in 0..alphabet.len() {
            for b in 0..alphabet.len() {
                jobs.push((c, a, b));
            }
        }
    }
    let part = jobs
        .par_iter()
        .fold(Stats::default, |mut s, &((limit, tl), a, b)| {
            let d = if limit == 65536 { depth.min(4) } else { depth };
            let mut hist = vec![alphabet[a], alphabet[b]];
            run_history(&mut s, limit, tl, &hist[..1]);
            run_history(&mut s, limit, tl, &hist);
            fn rec(s: &mut Stats, limit: usize, tl: usize, hist: &mut Vec<Op>, alphabet: &[Op], d: usize) {
                if hist.len() == d {
                    return;
                }
                for &o in alphabet {
                    hist.push(o);
                    run_history(s, limit, tl, hist);
                    rec(s, limit, tl, hist, alphabet, d);
                    hist.pop();
                }
            }
            rec(&mut s, limit, tl, &mut hist, &alphabet, d);
            if s.states % 5000 < 3 {
                s.sample(|| json!({"family": "cache-history", "limit": limit, "time_limit": tl, "history_prefix": format!("{:?}", hist)}));
            }
            s
        })
        .reduce(Stats::default, |mut a, b| {
            a.merge(b);
            a
        });
    st.merge(part);
}

// ---------------- handler level ----------------

fn scratch(tag: &str) -> std::path::PathBuf {
    let d = crate::report::root().join(".target").join("scratch").join(format!("c16-{}-{}-{:?}", tag, std::process::id(), std::thread::current().id()));
    let _ = std::fs::remove_dir_all(&d);
    std::fs::create_dir_all(&d).unwrap();
    d
}

fn get(path: &str) -> humphrey::http::Request {
    let mut r = Req::new("GET", path);
    r.headers = vec![("Host".into(), " ".into(), "x".into())];
    request_of(&r, "198.51.100.9:777")
}

fn handler_histories(st: &mut Stats) {
    let mut s = Stats::default();
    for (limit, tl) in [(0usize, 0usize), (1024, 0), (1024, 2), (4, 2)] {
        let dir = scratch("h");
        std::fs::create_dir_all(dir.join("d")).unwrap();
        let conf = format!("server {{\n  log {{\n    console false\n  }}\n  cache {{\n    size {}\n    time {}\n  }}\n}}", limit, tl);
        let state = state_from(&conf);
        let f = dir.join("one.txt");
        let idx = dir.join("d").join("index.html");
        // every sequence of length 5 over {request file, request dir index, rewrite file, rewrite index, tick}
        let n = 5usize;
        let mut code = vec![0usize; n];
        'outer: loop {
            s.evaluations += 1;
            s.states += 1;
            s.nontrivial += 1;
            let state = if limit > 0 { state_from(&conf) } else { state.clone() };
            let mut now = T0;
            set_virtual_clock(Some(now));
            std::fs::write(&f, b"file-v0").unwrap();
            std::fs::write(&idx, b"<index v0>").unwrap();
            // reference: current content per file, and what the cache holds per key (bytes, time cached);
            // the two keys together never exceed the larger limit, and nothing fits the smaller one
            let mut current: Vec<Vec<u8>> = vec![b"file-v0".to_vec(), b"<index v0>".to_vec()];
            let mut cached: Vec<Option<(Vec<u8>, u64)>> = vec![None, None];
            for (step, c) in code.iter().enumerate() {
                s.transitions += 1;
                match c {
                    0 | 1 => {
                        let which = *c;
                        let resp = std::panic::catch_unwind(std::panic::AssertUnwindSafe(|| {
                            if which == 0 {
                                file_handler(get("/one.txt"), state.clone(), f.to_str().unwrap(), 0)
                            } else {
                                directory_handler(get("/s/d/"), state.clone(), dir.to_str().unwrap(), "/s/*", 0)
                            }
                        }));
                        let ctx = |what: String| json!({"what": what, "size_limit": limit, "time_limit": tl, "sequence": code[..=step].iter().map(|c| ["GET file", "GET dir/", "rewrite file", "rewrite index", "tick 1s"][*c]).collect::<Vec<_>>()});
                        let hit = limit > 0 && cached[which].as_ref().map_or(false, |(_, t)| now - t <= tl as u64);
                        let expect = if hit { cached[which].as_ref().unwrap().0.clone() } else { current[which].clone() };
                        if !hit && limit >= current[which].len() && limit > 0 {
                            cached[which] = Some((current[which].clone(), now));
                        }
                        match resp {
                            Err(_) => s.violation("static handler panicked", || ctx("panic".into())),
                            Ok(r) => {
                                if u16::from(r.status_code) != 200 || r.body != expect {
                                    let class = if r.body == current[which] {
                                        "handler ignored a cached entry that is still within the time limit"
                                    } else if hit {
                                        "handler response is not the cached entry"
                                    } else {
                                        "handler served stale bytes although nothing valid was cached (older than the time limit or never cached)"
                                    };
                                    s.violation(class, || ctx(format!("status {} body {:?}, reference {:?} (cache {})", u16::from(r.status_code), show(&r.body), show(&expect), if hit { "hit" } else { "miss" })));
                                } else {
                                    s.outcome(if hit { "handler-cache-hit" } else { "handler-read-file" });
                                }
                            }
                        }
                    }
                    2 | 3 => {
                        let which = c - 2;
                        let v = format!("{}-v{}-{}", if which == 0 { "file" } else { "<index>" }, step + 1, "x".repeat(step)).into_bytes();
                        std::fs::write(if which == 0 { &f } else { &idx }, &v).unwrap();
                        current[which] = v;
                    }
                    _ => {
                        now += 1;
                        set_virtual_clock(Some(now));
                    }
                }
            }
            for p in (0..n).rev() {
                code[p] += 1;
                if code[p] < 5 {
                    continue 'outer;
                }
                code[p] = 0;
            }
            break;
        }
        set_virtual_clock(None);
        let _ = std::fs::remove_dir_all(&dir);
    }
    st.merge(s);
}

/// Neighbouring keys: requests whose (host, path) keys differ as little as possible (trailing slash, host index,
/// a file route and a directory route under the same name, explicit index file), in every order, against one
/// warm cache. The files never change, so the cache must be invisible: every response must equal the response the
/// same handler call gives with the cache switched off.
fn neighbouring_keys(st: &mut Stats, quick: bool) {
    let mut s = Stats::default();
    let dir = scratch("nk");
    for d in ["d", "about", "other/d", "other/about"] {
        std::fs::create_dir_all(dir.join(d)).unwrap();
    }
    std::fs::write(dir.join("d/index.html"), b"<d index>").unwrap();
    std::fs::write(dir.join("about/index.html"), b"<about index>").unwrap();
    std::fs::write(dir.join("about.txt"), b"about as a file").unwrap();
    std::fs::write(dir.join("d.css"), b"d{}").unwrap();
    std::fs::write(dir.join("other/d/index.html"), b"<other d index>").unwrap();
    std::fs::write(dir.join("other/about/index.html"), b"<other about index>").unwrap();
    let root = dir.to_str().unwrap().to_string();
    let other = dir.join("other").to_str().unwrap().to_string();
    let about_file = dir.join("about.txt").to_str().unwrap().to_string();
    let css_file = dir.join("d.css").to_str().unwrap().to_string();
    // (label, call)
    type Call = Box<dyn Fn(Arc<AppState>) -> humphrey::http::Response + Sync>;
    let dirreq = |uri: &'static str, base: String, host: usize| -> Call { Box::new(move |st| directory_handler(get(uri), st, &base, "/*", host)) };
    let filereq = |uri: &'static str, file: String, host: usize| -> Call { Box::new(move |st| file_handler(get(uri), st, &file, host)) };
    let menu: Vec<(&str, Call)> = vec![
        ("dir /d/ host0", dirreq("/d/", root.clone(), 0)),
        ("dir /d host0", dirreq("/d", root.clone(), 0)),
        ("dir /d/index.html host0", dirreq("/d/index.html", root.clone(), 0)),
        ("dir /d/ host1 (other directory)", dirreq("/d/", other.clone(), 1)),
        ("dir /about/ host0", dirreq("/about/", root.clone(), 0)),
        ("file /about host0", filereq("/about", about_file.clone(), 0)),
        ("dir /about host1", dirreq("/about", root.clone(), 1)),
        ("file /about/ host2", filereq("/about/", about_file.clone(), 2)),
        ("dir /about/ host1 (other directory)", dirreq("/about/", other.clone(), 1)),
        ("file /d host1 (css)", filereq("/d", css_file.clone(), 1)),
        ("dir //d/ host0", dirreq("//d/", root.clone(), 0)),
        ("dir /d// host0", dirreq("/d//", root.clone(), 0)),
    ];
    // no two calls share a (host, path) key: what a route answers for one key is one thing in any real configuration
    // (a first version had a file route and a directory route answer the same key and took the cache's legitimate
    // answer for a defect)
    {
        let mut keys: Vec<String> = menu.iter().map(|(l, _)| { let w: Vec<&str> = l.split(' ').collect(); format!("{} {}", w[1], w[2]) }).collect();
        keys.sort();
        keys.dedup();
        assert_eq!(keys.len(), menu.len(), "menu keys must be distinct");
    }
    let conf = |size: usize| format!("server {{\n  log {{\n    console false\n  }}\n  cache {{\n    size {}\n    time 60\n  }}\n}}", size);
    set_virtual_clock(Some(T0));
    let view = |r: &humphrey::http::Response| (u16::from(r.status_code), r.body.clone(), r.headers.get("Content-Type").map(|x| x.to_string()), r.headers.get("Location").map(|x| x.to_string()));
    let off = state_from(&conf(0));
    let base: Vec<_> = menu.iter().map(|(_, c)| std::panic::catch_unwind(std::panic::AssertUnwindSafe(|| view(&c(off.clone())))).ok()).collect();
    let len = if quick { 3 } else { 4 };
    let mut code = vec![0usize; len];
    'outer: loop {
        // sequences of length 2..=len: shorter ones are prefixes
        s.states += 1;
        s.evaluations += 1;
        s.nontrivial += 1;
        let state = state_from(&conf(1 << 20));
        for (step, &i) in code.iter().enumerate() {
            s.transitions += 1;
            let got = std::panic::catch_unwind(std::panic::AssertUnwindSafe(|| view(&menu[i].1(state.clone())))).ok();
            if got != base[i] {
                let class = match (&got, &base[i]) {
                    (None, _) => "static handler panicked with the cache on",
                    (Some(g), Some(b)) if g.0 != b.0 => "with a warm cache a request gets a different status than without a cache (another key's entry was served)",
                    (Some(g), Some(b)) if g.1 != b.1 => "with a warm cache a request gets another entry's bytes",
                    _ => "with a warm cache a request gets another entry's MIME type or headers",
                };
                s.violation(format!("neighbouring keys: {}", class), || json!({"sequence": code[..=step].iter().map(|&c| menu[c].0).collect::<Vec<_>>(), "with_cache": format!("{:?}", got.as_ref().map(|g| (g.0, show(&g.1), &g.2, &g.3))), "without_cache": format!("{:?}", base[i].as_ref().map(|g| (g.0, show(&g.1), &g.2, &g.3)))}));
                break;
            }
            s.outcome(match got.as_ref().map(|g| g.0) { Some(200) => "nk-200", Some(301) => "nk-301", Some(404) => "nk-404", _ => "nk-other" });
        }
        for p in (0..len).rev() {
            code[p] += 1;
            if code[p] < menu.len() {
                continue 'outer;
            }
            code[p] = 0;
        }
        break;
    }
    set_virtual_clock(None);
    let _ = std::fs::remove_dir_all(&dir);
    st.merge(s);
}

fn concurrent(cx: &mut Ctx) {
    // two threads x two requests through the real handlers and the RwLock, cache on
    let dir = scratch("e1");
    std::fs::create_dir_all(dir.join("d")).unwrap();
    std::fs::write(dir.join("one.txt"), b"ONE").unwrap();
    std::fs::write(dir.join("d").join("index.html"), b"INDEX").unwrap();
    let dirs = dir.to_str().unwrap().to_string();
    type Obs = Vec<(usize, u16, Vec<u8>)>;
    let scenarios: Vec<[[usize; 2]; 2]> = vec![[[0, 0], [0, 0]], [[0, 1], [1, 0]], [[0, 1], [0, 1]], [[1, 1], [0, 0]]];
    let mut per = vec![];
    for scn in scenarios {
        let dirs = dirs.clone();
        let run = move |prefix: Vec<usize>| {
            let obs: Arc<Mutex<Obs>> = Arc::new(Mutex::new(vec![]));
            let (o2, d2) = (obs.clone(), dirs.clone());
            let r = run_once(prefix, 100_000, &move || {
                let state = state_from("server {\n  log {\n    console false\n  }\n  cache {\n    size 1024\n    time 60\n  }\n}");
                let mut hs = vec![];
                for t in 0..2 {
                    let (state, o3, d3) = (state.clone(), o2.clone(), d2.clone());
                    hs.push(
                        thread::Builder::new()
                            .name(format!("req{}", t))
                            .spawn(move || {
                                for which in scn[t] {
                                    let r = if which == 0 {
                                        file_handler(get("/one.txt"), state.clone(), &format!("{}/one.txt", d3), 0)
                                    } else {
                                        directory_handler(get("/s/d/"), state.clone(), &d3, "/s/*", 0)
                                    };
                                    o3.lock().unwrap().push((which, u16::from(r.status_code), r.body.clone()));
                                }
                            })
                            .unwrap(),
                    );
                }
                for h in hs {
                    let _ = h.join();
                }
            });
            let o = obs.lock().unwrap().clone();
            (r, o)
        };
        let check = |r: &humphrey::verif::rt::ExecResult, o: &Obs, choices: &[usize], s: &mut Stats| {
            s.evaluations += 1;
            s.nontrivial += 1;
            s.transitions += r.points.len() as u64;
            let ctx = |what: String| json!({"what": what, "requests_per_thread": format!("{:?}", scn), "schedule": choices, "blocked_at_end": format!("{:?}", r.blocked_at_end)});
            if r.deadlock || r.step_cap_hit {
                s.violation("concurrent requests through the cache deadlock", || ctx("no runnable thread".into()));
                return;
            }
            if let Some(p) = &r.root_panic {
                s.violation("concurrent requests through the cache panic", || ctx(p.clone()));
                return;
            }
            if o.len() != 4 || o.iter().any(|(w, st, b)| *st != 200 || b != if *w == 0 { &b"ONE"[..] } else { &b"INDEX"[..] }) {
                s.violation("a concurrent request got another entry's bytes or an error", || ctx(format!("{:?}", o.iter().map(|x| (x.0, x.1, show(&x.2))).collect::<Vec<_>>())));
                return;
            }
            s.outcome("concurrent-ok");
        };
        let mut st = Stats::default();
        let mut cfg = Cfg::new(Bound::Preemption(cx.pick(2, 3)));
        cfg.max_steps = 100_000;
        cfg.wall = std::time::Duration::from_secs(cx.pick(15, 300));
        let out = sched::explore(&cfg, &run, &check, &mut st);
        sched::die_on_machinery(&out, "C16 concurrent");
        st.states += out.execs;
        if out.capped {
            cx.cap(format!("concurrent scenario {:?} capped at bound {:?}", scn, out.completed_bound));
        }
        per.push(json!({"requests_per_thread": format!("{:?}", scn), "schedules": out.execs, "completed_preemption_bound": out.completed_bound}));
        cx.stats.merge(st);
    }
    cx.extra.insert("concurrent_scenarios".into(), json!(per));
    let _ = std::fs::remove_dir_all(&dir);
}

pub fn run(mut cx: Ctx) -> ! {
    cx.rule = "every history of length <= 5 (6) over {set(key, host, size) for 3 keys x 2 hosts x sizes {0, L/2, L}, tick +1 s} is replayed on a fresh real Cache with a virtual clock for limits (L, T) in {(0,0),(1,1),(8,0),(8,1),(8,60),(64 KiB,1)}, with all six lookups and the invariants checked after every operation; every length-5 sequence over {GET file, GET directory index, rewrite file, rewrite index, tick} runs through file_handler/directory_handler with the cache off and on; 2 threads x 2 requests run through the handlers and the RwLock under every schedule with <= 2 (3) preemptions; states = histories/schedules, transitions = cache or handler operations; non-trivial = histories with >= 2 stores, all handler and concurrent cases".into();
    let depth = cx.pick(5, 6);
    cx.bound("history_depth", depth);
    let mut st = Stats::default();
    histories(&mut st, depth);
    handler_histories(&mut st);
    neighbouring_keys(&mut st, cx.quick());
    cx.stats.merge(st);
    concurrent(&mut cx);
    cx.assume("concurrency argument: every Cache operation runs inside one RwLock critical section and get takes &self over plain data, so concurrent histories are merges of the sequential ones enumerated here; the scheduler run guards that argument against edits that split or nest the critical sections");
    cx.assume("sizes above the limit are not stored by the handlers and are outside the property");
    cx.finish()
}
