//! C09 — proxy always answers: the upstream's response if valid, else 502, within the timeout;
//! the upstream receives the client's request with the route prefix stripped and one added
//! X-Forwarded-For; round-robin targets rotate strictly, also under concurrent requests.
//! Fault enumeration runs the real proxy code against scripted upstreams on the simulated network
//! with a virtual clock; target selection is explored with the scheduler (DESIGN.md §3 C09).

use crate::props::c02::{same_request, Req};
use crate::props::c07::{all_status, phrases};
use crate::report::{show, Ctx, Stats};
use crate::sched::{self, Bound, Cfg};
use humphrey::http::proxy::proxy_request;
use humphrey::http::{Request, Response};
use humphrey::verif::net::{verif_blackhole, TcpListener, TcpStream};
use humphrey::verif::rt::{cur, run_once};
use humphrey::verif::thread;
use humphrey_server::config::config::Config;
use humphrey_server::config::tree::parse_conf;
use humphrey_server::proxy::proxy_handler;
use humphrey_server::server::server::AppState;
use rayon::prelude::*;
use serde_json::json;
use std::io::{Read, Write};
use std::net::SocketAddr;
use std::sync::{Arc, Mutex};
use std::time::Duration;

#[derive(Clone, Debug)]
pub enum UAct {
    Write(Vec<u8>),
    SleepMs(u64),
    Close,
}

#[derive(Clone, Debug)]
pub enum Upstream {
    /// nobody listens
    Refused,
    /// connect attempts are silently dropped
    Blackhole,
    /// accepts, reads the request, then plays the script; after the script the connection stays open for an hour
    Script(Vec<UAct>),
    /// accepts and closes / goes silent without reading
    AcceptClose,
    AcceptSilent,
}

#[derive(Clone, Debug)]
pub enum Want {
    /// status, headers (lower-case names), body
    Upstream(u16, Vec<(String, String)>, Vec<u8>),
    BadGateway,
}

pub const TIMEOUT: Duration = Duration::from_secs(5);
const SLACK_NS: u64 = 1_000_000_000;

fn read_request(s: &mut TcpStream) -> Vec<u8> {
    let mut buf = vec![];
    let mut tmp = [0u8; 1024];
    loop {
        if let Some(p) = buf.windows(4).position(|w| w == b"\r\n\r\n") {
            let head = String::from_utf8_lossy(&buf[..p]).to_string();
            let cl = head.split("\r\n").filter_map(|l| l.split_once(':')).find(|(k, _)| k.eq_ignore_ascii_case("content-length")).and_then(|(_, v)| v.trim().parse::<usize>().ok()).unwrap_or(0);
            if buf.len() >= p + 4 + cl {
                return buf;
            }
        }
        match s.read(&mut tmp) {
            Ok(0) | Err(_) => return buf,
            Ok(n) => buf.extend_from_slice(&tmp[..n]),
        }
    }
}

fn spawn_upstream(l: TcpListener, up: Upstream, seen: Arc<Mutex<Vec<Vec<u8>>>>, conns: usize) {
    thread::Builder::new()
        .name("upstream".into())
        .spawn(move || {
            for _ in 0..conns {
                let Ok((mut s, _)) = l.accept() else { return };
                match &up {
                    Upstream::AcceptClose => continue,
                    Upstream::AcceptSilent => {
                        thread::sleep(Duration::from_secs(3600));
                        continue;
                    }
                    Upstream::Script(acts) => {
                        let got = read_request(&mut s);
                        seen.lock().unwrap().push(got);
                        let mut closed = false;
                        for a in acts {
                            match a {
                                UAct::Write(b) => {
                                    let _ = s.write_all(b);
                                }
                                UAct::SleepMs(ms) => thread::sleep(Duration::from_millis(*ms)),
                                UAct::Close => {
                                    closed = true;
                                    break;
                                }
                            }
                        }
                        if !closed {
                            thread::sleep(Duration::from_secs(3600));
                        }
                    }
                    _ => {}
                }
            }
        })
        .unwrap();
}

pub struct Run {
    pub status: u16,
    pub headers: Vec<(String, String)>,
    pub body: Vec<u8>,
    pub elapsed_ns: u64,
    pub upstream_saw: Vec<Vec<u8>>,
}

pub fn request_of(r: &Req, peer: &str) -> Request {
    Request::from_stream(&mut &r.bytes()[..], peer.parse().unwrap()).expect("generated request parses")
}

/// One execution under the default schedule of the controlled runtime (virtual time).
pub fn run_fault(up: &Upstream, req: &Req) -> Result<Run, String> {
    let out: Arc<Mutex<Option<Run>>> = Arc::new(Mutex::new(None));
    let (o2, up2, req2) = (out.clone(), up.clone(), req.clone());
    let r = run_once(vec![], 200_000, &move || {
        let target: SocketAddr = "127.0.0.1:9000".parse().unwrap();
        let seen = Arc::new(Mutex::new(vec![]));
        match &up2 {
            Upstream::Refused => {}
            Upstream::Blackhole => verif_blackhole(target),
            other => {
                let l = TcpListener::bind(target).expect("bind simulated upstream");
                spawn_upstream(l, other.clone(), seen.clone(), 1);
            }
        }
        let request = request_of(&req2, "198.51.100.9:777");
        let t0 = cur().map(|(rt, _)| rt.now()).unwrap_or(0);
        let resp: Response = proxy_request(&request, target, TIMEOUT);
        let t1 = cur().map(|(rt, _)| rt.now()).unwrap_or(0);
        *o2.lock().unwrap() = Some(Run {
            status: u16::from(resp.status_code),
            headers: resp.headers.iter().map(|h| (h.name.to_string().to_ascii_lowercase(), h.value.clone())).collect(),
            body: resp.body.clone(),
            elapsed_ns: t1 - t0,
            upstream_saw: seen.lock().unwrap().clone(),
        });
    });
    if let Some(p) = r.root_panic {
        return Err(format!("panicked: {}", p));
    }
    if r.deadlock {
        return Err(format!("never returns (caller blocked forever; blocked threads: {:?})", r.blocked_at_end));
    }
    if r.step_cap_hit {
        return Err("exceeded the step horizon".into());
    }
    let x = out.lock().unwrap().take();
    x.ok_or_else(|| "no result".into())
}

fn per_name(h: &[(String, String)]) -> std::collections::BTreeMap<String, Vec<String>> {
    let mut m = std::collections::BTreeMap::new();
    for (n, v) in h {
        m.entry(n.clone()).or_insert_with(Vec::new).push(v.clone());
    }
    m
}

fn check_fault(s: &mut Stats, fam: &str, up: &Upstream, req: &Req, want: &Want) {
    s.evaluations += 1;
    s.states += 1;
    s.transitions += 1;
    if !matches!(want, Want::Upstream(..)) {
        s.nontrivial += 1;
    }
    let ctx = |what: String| json!({"family": fam, "what": what, "upstream": format!("{:?}", up).chars().take(300).collect::<String>(), "request": show(&req.bytes()[..req.bytes().len().min(120)])});
    match run_fault(up, req) {
        Err(e) => {
            let class = if e.starts_with("panicked") { "proxy panicked" } else { "proxy never returns" };
            s.violation(format!("[{}] {}", fam, class), || ctx(e.clone()));
        }
        Ok(run) => {
            if run.elapsed_ns > TIMEOUT.as_nanos() as u64 + SLACK_NS {
                s.violation(format!("[{}] proxy took longer than the timeout", fam), || ctx(format!("returned {} after {} virtual ms (timeout {} ms)", run.status, run.elapsed_ns / 1_000_000, TIMEOUT.as_millis())));
                return;
            }
            match want {
                Want::BadGateway => {
                    if run.status != 502 {
                        s.violation(format!("[{}] proxy did not answer 502 for a faulty upstream", fam), || ctx(format!("returned {} with {} body bytes", run.status, run.body.len())));
                    } else {
                        s.outcome("502");
                    }
                }
                Want::Upstream(st, hs, body) => {
                    if run.status != *st || run.body != *body || per_name(&run.headers) != per_name(hs) {
                        let class = if run.status == 502 { "valid upstream response turned into 502" } else if run.body != *body { "upstream body not forwarded intact" } else { "upstream status or headers not forwarded intact" };
                        s.violation(format!("[{}] {}", fam, class), || ctx(format!("got {} {:?} body {}", run.status, run.headers, show(&run.body[..run.body.len().min(60)]))));
                        return;
                    }
                    // what the upstream received: the client's request + one X-Forwarded-For with the client's address
                    let Some(saw) = run.upstream_saw.first() else {
                        s.violation(format!("[{}] upstream never received the request", fam), || ctx("".into()));
                        return;
                    };
                    let parsed = Request::from_stream(&mut &saw[..], "198.51.100.9:777".parse().unwrap());
                    // the added field carries "the client's address": the TCP peer, or — when the client itself
                    // came through proxies — the origin it names; both readings are accepted
                    let origin = request_of(req, "198.51.100.9:777").address.origin_addr.to_string();
                    let mut ok_variants = vec![];
                    for added in ["198.51.100.9".to_string(), origin] {
                        let mut expect = req.clone();
                        expect.headers.push(("X-Forwarded-For".into(), " ".into(), added));
                        ok_variants.push(request_of(&expect, "198.51.100.9:777"));
                    }
                    let same_mod_addr = |a: &Request, b: &Request| {
                        let mut b2 = b.clone();
                        b2.address = a.address.clone();
                        same_request(a, &b2)
                    };
                    let want_req = ok_variants[0].clone();
                    let parsed = parsed.map(|p| if ok_variants.iter().any(|w| same_mod_addr(&p, w)) { want_req.clone() } else { p });
                    match parsed {
                        Ok(p) if same_request(&p, &want_req) => s.outcome("forwarded"),
                        Ok(_) => s.violation(format!("[{}] upstream received a different request than the client sent (+ X-Forwarded-For)", fam), || ctx(format!("upstream saw {}", show(&saw[..saw.len().min(300)])))),
                        Err(e) => s.violation(format!("[{}] upstream received something that is not the request", fam), || ctx(format!("{:?}: {}", e, show(&saw[..saw.len().min(200)])))),
                    }
                }
            }
        }
    }
    if s.states % 400 == 3 {
        s.sample(|| json!({"family": fam, "upstream": format!("{:?}", up).chars().take(160).collect::<String>(), "expected": format!("{:?}", want).chars().take(80).collect::<String>()}));
    }
}

fn chunked(body: &[u8], comp: &[usize]) -> Vec<u8> {
    let mut out = vec![];
    let mut last = 0;
    let mut ends = comp.to_vec();
    ends.push(body.len());
    for e in ends {
        if e > last {
            out.extend(format!("{:x}\r\n", e - last).bytes());
            out.extend(&body[last..e]);
            out.extend(b"\r\n");
            last = e;
        }
    }
    out.extend(b"0\r\n\r\n");
    out
}

fn fault_family(st: &mut Stats, quick: bool) {
    let mut cases: Vec<(&'static str, Upstream, Req, Want)> = vec![];
    let base = {
        let mut r = Req::new("GET", "/up");
        r.query = Some("q=1".into());
        r.headers = vec![("Host".into(), " ".into(), "app.test".into()), ("X-A".into(), " ".into(), "é".into())];
        r
    };
    let post = {
        let mut r = Req::new("POST", "/submit");
        r.headers = vec![("Host".into(), " ".into(), "app.test".into()), ("X-Forwarded-For".into(), " ".into(), "10.1.1.1".into())];
        r.body = Some(b"payload\r\n\0".to_vec());
        r
    };
    // valid responses: every modelled status with Content-Length; chunked in every composition; upstream closes or stays open
    let mut valid: Vec<(Vec<u8>, Want)> = vec![];
    for (code, _) in all_status() {
        let body: Vec<u8> = if code == 204 || code == 304 || code / 100 == 1 { vec![] } else { format!("body-{}", code).into_bytes() };
        let wire = format!("HTTP/1.1 {} {}\r\nX-Up: a\r\nSet-Cookie: s=1\r\nSet-Cookie: t=2\r\nContent-Length: {}\r\n\r\n", code, phrases(code)[0], body.len()).into_bytes();
        let mut w = wire;
        w.extend(&body);
        valid.push((w, Want::Upstream(code, vec![("x-up".into(), "a".into()), ("set-cookie".into(), "s=1".into()), ("set-cookie".into(), "t=2".into()), ("content-length".into(), body.len().to_string())], body)));
    }
    let cb = b"ab\r\n".to_vec();
    for comp in crate::plans::all_compositions(cb.len()) {
        let mut w = b"HTTP/1.1 200 OK\r\nTransfer-Encoding: chunked\r\n\r\n".to_vec();
        w.extend(chunked(&cb, &comp));
        valid.push((w, Want::Upstream(200, vec![("content-length".into(), "4".into())], cb.clone())));
    }
    valid.push((b"HTTP/1.0 200 OK\r\nContent-Length: 2\r\n\r\nok".to_vec(), Want::Upstream(200, vec![("content-length".into(), "2".into())], b"ok".to_vec())));
    for (w, want) in &valid {
        for req in [&base, &post] {
            cases.push(("valid-then-close", Upstream::Script(vec![UAct::Write(w.clone()), UAct::Close]), req.clone(), want.clone()));
        }
        cases.push(("valid-then-stays-open", Upstream::Script(vec![UAct::Write(w.clone())]), base.clone(), want.clone()));
        // delivered in two writes 50 ms apart, at every split point for short ones
        if w.len() < 80 || !quick {
            for cut in (1..w.len()).step_by(if w.len() < 80 { 1 } else { 7 }) {
                cases.push(("valid-in-two-writes", Upstream::Script(vec![UAct::Write(w[..cut].to_vec()), UAct::SleepMs(50), UAct::Write(w[cut..].to_vec()), UAct::Close]), base.clone(), want.clone()));
            }
        }
    }
    // close-delimited body (valid HTTP/1.x): recorded finding if dropped
    cases.push(("close-delimited-body", Upstream::Script(vec![UAct::Write(b"HTTP/1.1 200 OK\r\nX-Up: a\r\n\r\nuntil close".to_vec()), UAct::Close]), base.clone(), Want::Upstream(200, vec![("x-up".into(), "a".into())], b"until close".to_vec())));
    // every valid response cut at every byte offset, then close / silence
    let cut_sources: Vec<&(Vec<u8>, Want)> = valid.iter().filter(|(w, _)| w.starts_with(b"HTTP/1.1 200") || w.starts_with(b"HTTP/1.1 404") || w.starts_with(b"HTTP/1.0")).collect();
    for (w, _) in cut_sources {
        for cut in 0..w.len() {
            cases.push(("cut-then-close", Upstream::Script(vec![UAct::Write(w[..cut].to_vec()), UAct::Close]), base.clone(), Want::BadGateway));
            cases.push(("cut-then-silence", Upstream::Script(vec![UAct::Write(w[..cut].to_vec())]), base.clone(), Want::BadGateway));
        }
    }
    // garbage
    for g in [&b"\r\n"[..], b"HTTP", b"HTTP/1.1 abc X\r\n\r\n", b"HTTP/1.1 200 OK\r\nNoColonHere\r\n\r\n", b"\xff\xfe\xfd\r\n\r\n", b"HTTP/1.1 200 OK\nContent-Length: 0\n\n", "HTTP/1.1 200 OK\r\nX: é\n\r\n".as_bytes(), b"HTTP/1.1 999 Nope\r\n\r\n", b"SSH-2.0-OpenSSH\r\n", b"HTTP/1.1 200 OK\r\nContent-Length: abc\r\n\r\n", b"HTTP/1.1 200 OK\r\nTransfer-Encoding: chunked\r\n\r\nzz\r\n", b"HTTP/1.1 200 OK\r\nContent-Length: 100000000000000\r\n\r\nx"] {
        cases.push(("garbage-then-close", Upstream::Script(vec![UAct::Write(g.to_vec()), UAct::Close]), base.clone(), Want::BadGateway));
        cases.push(("garbage-then-silence", Upstream::Script(vec![UAct::Write(g.to_vec())]), base.clone(), Want::BadGateway));
    }
    for req in [&base, &post] {
        cases.push(("refused", Upstream::Refused, req.clone(), Want::BadGateway));
        cases.push(("connect-blackhole", Upstream::Blackhole, req.clone(), Want::BadGateway));
        cases.push(("accept-then-close", Upstream::AcceptClose, req.clone(), Want::BadGateway));
        cases.push(("accept-then-silence", Upstream::AcceptSilent, req.clone(), Want::BadGateway));
        cases.push(("silence-after-request", Upstream::Script(vec![]), req.clone(), Want::BadGateway));
    }
    // a request larger than a socket send buffer: an upstream that reads it gets all of it; one that accepts and
    // never reads makes the proxy's write block, which must end in 502 within the timeout as well
    let big = {
        let mut r = Req::new("POST", "/upload");
        r.headers = vec![("Host".into(), " ".into(), "app.test".into())];
        r.body = Some((0..600 * 1024).map(|i| (i % 251) as u8).collect());
        r
    };
    cases.push(("large-request", Upstream::Script(vec![UAct::Write(b"HTTP/1.1 200 OK\r\nContent-Length: 2\r\n\r\nok".to_vec()), UAct::Close]), big.clone(), Want::Upstream(200, vec![("content-length".into(), "2".into())], b"ok".to_vec())));
    cases.push(("large-request-never-read", Upstream::AcceptSilent, big.clone(), Want::BadGateway));
    // trickle: one byte per 50 ms (the whole response would take longer than the timeout)
    let slow: Vec<u8> = format!("HTTP/1.1 200 OK\r\nContent-Length: 200\r\n\r\n{}", "z".repeat(200)).into_bytes();
    let mut acts = vec![];
    for b in &slow {
        acts.push(UAct::Write(vec![*b]));
        acts.push(UAct::SleepMs(50));
    }
    cases.push(("trickle", Upstream::Script(acts), base.clone(), Want::BadGateway));
    // client requests of the C02 grammar against a plain upstream
    let ok = valid[2].clone();
    for m in crate::props::c02::METHODS {
        for (path, q) in [("/", None), ("/a/b.c", Some("x=1&y")), ("/é", Some("a?b"))] {
            for hdrs in [vec![], vec![("Cookie", "a=1; b=2"), ("X-A", "1"), ("x-a", "2")], vec![("Host", "h"), ("X-Forwarded-For", "8.8.8.8, 9.9.9.9")]] {
                let mut r = Req::new(m, path);
                r.query = q.map(|s: &str| s.to_string());
                r.headers = hdrs.iter().map(|(n, v)| (n.to_string(), " ".to_string(), v.to_string())).collect();
                if m == "POST" || m == "PUT" {
                    r.body = Some(crate::props::c02::body_pattern(300));
                }
                cases.push(("client-requests", Upstream::Script(vec![UAct::Write(ok.0.clone()), UAct::Close]), r, ok.1.clone()));
            }
        }
    }
    st.count("fault_cases", cases.len() as u64);
    let part = cases
        .par_iter()
        .fold(Stats::default, |mut s, (fam, up, req, want)| {
            check_fault(&mut s, fam, up, req, want);
            s
        })
        .reduce(Stats::default, |mut a, b| {
            a.merge(b);
            a
        });
    st.merge(part);
}

// ---------------- proxy_handler: prefix stripping, blacklist, target rotation ----------------

pub fn state_from(conf: &str) -> Arc<AppState> {
    let tree = parse_conf(conf, "verif.conf").expect("harness configuration parses");
    let config = Config::from_tree(tree).expect("harness configuration is valid");
    Arc::new(AppState::from(config))
}

fn id_server(l: TcpListener, id: usize, hits: Arc<Mutex<Vec<(usize, Vec<u8>)>>>, conns: usize) {
    thread::Builder::new()
        .name(format!("target{}", id))
        .spawn(move || {
            for _ in 0..conns {
                let Ok((mut s, _)) = l.accept() else { return };
                let got = read_request(&mut s);
                hits.lock().unwrap().push((id, got));
                let _ = s.write_all(format!("HTTP/1.1 200 OK\r\nContent-Length: 1\r\n\r\n{}", id).as_bytes());
            }
        })
        .unwrap();
}

#[derive(Clone, Debug)]
pub struct Sel {
    pub targets: usize,
    pub threads: usize,
    pub calls: usize,
    /// target 0 accepts, reads the request and never answers
    pub silent_first: bool,
}

type SelObs = (Vec<(usize, Vec<u8>)>, Vec<(usize, u16, Vec<u8>, u64)>);

fn selection_body(sel: &Sel, obs: &Arc<Mutex<SelObs>>) {
    let ports: Vec<u16> = (0..sel.targets).map(|i| 9100 + i as u16).collect();
    let conf = format!(
        "server {{\n  log {{\n    console false\n  }}\n  route /api/* {{\n    proxy \"{}\"\n    load_balancer_mode \"round-robin\"\n  }}\n}}",
        ports.iter().map(|p| format!("127.0.0.1:{}", p)).collect::<Vec<_>>().join(",")
    );
    let state = state_from(&conf);
    let hits = Arc::new(Mutex::new(vec![]));
    let total = sel.threads * sel.calls;
    for (i, p) in ports.iter().enumerate() {
        let l = TcpListener::bind(format!("127.0.0.1:{}", p)).unwrap();
        if i == 0 && sel.silent_first {
            let h2 = hits.clone();
            thread::Builder::new()
                .name("silent-target".into())
                .spawn(move || {
                    let mut held = vec![];
                    for _ in 0..total {
                        let Ok((mut s, _)) = l.accept() else { return };
                        let got = read_request(&mut s);
                        h2.lock().unwrap().push((0usize, got));
                        held.push(s);
                    }
                    thread::sleep(Duration::from_secs(3600));
                })
                .unwrap();
        } else {
            id_server(l, i, hits.clone(), total);
        }
    }
    let results = Arc::new(Mutex::new(vec![]));
    let mut hs = vec![];
    for t in 0..sel.threads {
        let (state, results, calls) = (state.clone(), results.clone(), sel.calls);
        hs.push(
            thread::Builder::new()
                .name(format!("caller{}", t))
                .spawn(move || {
                    for c in 0..calls {
                        let mut r = Req::new("GET", &format!("/api/t{}c{}", t, c));
                        r.headers = vec![("Host".into(), " ".into(), "x".into())];
                        let req = request_of(&r, "198.51.100.9:777");
                        let route = state.config.get_route(0, 0);
                        let t0 = cur().map(|(rt, _)| rt.now()).unwrap_or(0);
                        let resp = proxy_handler(req, state.clone(), route.load_balancer.as_ref().unwrap(), &route.matches);
                        let t1 = cur().map(|(rt, _)| rt.now()).unwrap_or(0);
                        results.lock().unwrap().push((t, u16::from(resp.status_code), resp.body.clone(), t1 - t0));
                    }
                })
                .unwrap(),
        );
    }
    for h in hs {
        let _ = h.join();
    }
    let h = hits.lock().unwrap().clone();
    let r = results.lock().unwrap().clone();
    *obs.lock().unwrap() = (h, r);
}

fn selection_family(cx: &mut Ctx) {
    let quick = cx.quick();
    let mut scns = vec![];
    for targets in 1..=(if quick { 3 } else { 4 }) {
        for threads in [1usize, 2, 3] {
            if quick && threads == 3 && targets != 2 {
                continue;
            }
            scns.push(Sel { targets, threads, calls: 2, silent_first: false });
        }
    }
    // one target accepts and never answers: requests routed to the healthy target must not wait for it
    scns.push(Sel { targets: 2, threads: 2, calls: 1, silent_first: true });
    scns.push(Sel { targets: 2, threads: 3, calls: 1, silent_first: true });
    if !quick {
        scns.push(Sel { targets: 3, threads: 3, calls: 2, silent_first: true });
    }
    let results: Vec<(Stats, sched::Out, String)> = scns
        .par_iter()
        .map(|sel| {
            let mut st = Stats::default();
            let mut cfg = Cfg::new(Bound::Deviation(if sel.threads == 1 { 0 } else if quick { 2 } else { 3 }));
            cfg.workers = 2;
            cfg.max_steps = 200_000;
            cfg.wall = Duration::from_secs(if quick { 25 } else { 900 });
            let run = |prefix: Vec<usize>| {
                let obs: Arc<Mutex<SelObs>> = Arc::new(Mutex::new((vec![], vec![])));
                let (o2, s2) = (obs.clone(), sel.clone());
                let r = run_once(prefix, 200_000, &move || selection_body(&s2, &o2));
                let o = obs.lock().unwrap().clone();
                (r, o)
            };
            let check = |r: &humphrey::verif::rt::ExecResult, o: &SelObs, choices: &[usize], s: &mut Stats| {
                s.evaluations += 1;
                s.transitions += r.points.len() as u64;
                if sel.threads > 1 {
                    s.nontrivial += 1;
                }
                let ctx = |what: String| json!({"what": what, "targets": sel.targets, "threads": sel.threads, "calls_each": sel.calls, "schedule": choices, "targets_hit_in_order": o.0.iter().map(|h| h.0).collect::<Vec<_>>()});
                if r.deadlock || r.root_panic.is_some() || r.step_cap_hit {
                    s.violation("selection: concurrent proxied requests hang or panic", || ctx(format!("deadlock={} panic={:?}", r.deadlock, r.root_panic)));
                    return;
                }
                let total = sel.threads * sel.calls;
                if sel.silent_first {
                    // the healthy targets answer at once on the virtual clock; only calls routed to the silent
                    // target may take the timeout, and they end in 502
                    if o.1.len() != total {
                        s.violation("selection: a proxied request never returned", || ctx(format!("{} of {} calls returned", o.1.len(), total)));
                        return;
                    }
                    for (t, status, body, elapsed) in &o.1 {
                        if *status == 200 && *elapsed > SLACK_NS {
                            s.violation("selection: a request to a healthy target waited for another request's stalled target", || ctx(format!("caller {} got {:?} after {} virtual ms", t, show(body), elapsed / 1_000_000)));
                            return;
                        }
                        if *status != 200 && (*status != 502 || *elapsed > TIMEOUT.as_nanos() as u64 + SLACK_NS) {
                            s.violation("selection: a request to the stalled target was not answered 502 within the timeout", || ctx(format!("caller {} status {} after {} virtual ms", t, status, elapsed / 1_000_000)));
                            return;
                        }
                    }
                    let stalled = o.1.iter().filter(|x| x.1 == 502).count();
                    let want_stalled = (0..total).filter(|j| j % sel.targets == 0).count();
                    if stalled != want_stalled {
                        s.violation("selection: round-robin targets are not handed out in strict rotation", || ctx(format!("{} calls hit the stalled target, rotation gives {}", stalled, want_stalled)));
                        return;
                    }
                    s.outcome("stalled-target-isolated");
                    return;
                }
                if o.1.len() != total || o.1.iter().any(|x| x.1 != 200) {
                    s.violation("selection: a proxied request was not answered with the upstream's response", || ctx(format!("{:?}", o.1.iter().map(|x| x.1).collect::<Vec<_>>())));
                    return;
                }
                // strict rotation: over M grants target i is chosen exactly |{j < M : j mod N = i}| times
                let mut counts = vec![0usize; sel.targets];
                for h in &o.0 {
                    counts[h.0] += 1;
                }
                let want: Vec<usize> = (0..sel.targets).map(|i| (0..total).filter(|j| j % sel.targets == i).count()).collect();
                if counts != want {
                    s.violation("selection: round-robin targets are not handed out in strict rotation", || ctx(format!("per-target counts {:?}, rotation gives {:?}", counts, want)));
                    return;
                }
                // prefix stripped + one X-Forwarded-For added, body answered by the chosen target
                for (_, bytes) in &o.0 {
                    let text = String::from_utf8_lossy(bytes);
                    let first = text.lines().next().unwrap_or("");
                    let xff = text.to_ascii_lowercase().matches("x-forwarded-for: 198.51.100.9").count();
                    if !(first.starts_with("GET /t") && first.ends_with("HTTP/1.1")) || xff != 1 {
                        s.violation("selection: upstream did not receive the request with the route prefix stripped and one X-Forwarded-For", || ctx(text.chars().take(200).collect()));
                        return;
                    }
                }
                s.outcome(format!("rotation-ok N={}", sel.targets));
            };
            let out = sched::explore(&cfg, &run, &check, &mut st);
            st.states += out.execs;
            (st, out, format!("{:?}", sel))
        })
        .collect();
    let mut per = vec![];
    for (st, out, name) in results {
        sched::die_on_machinery(&out, &name);
        if out.capped {
            cx.cap(format!("selection {}: capped, completed deviation bound {:?}", name, out.completed_bound));
        }
        per.push(json!({"scenario": name, "schedules": out.execs, "completed_bound": out.completed_bound, "max_decision_points": out.max_points}));
        cx.stats.merge(st);
    }
    cx.extra.insert("selection_scenarios".into(), json!(per));
}

fn handler_family(st: &mut Stats) {
    // proxy_handler end to end under the default schedule: prefix stripping, blacklist, random mode
    let mut s = Stats::default();
    // (route, request target, what the upstream must be asked for, full product of mode x blacklist?)
    let mut combos: Vec<(String, String, String, bool)> = [("/api/*", "/api/x/y", "/x/y"), ("/api*", "/api", "/"), ("/*", "/a", "/a"), ("/p/*", "/p/", "/"), ("/p/*", "/p/q?z", "/q")].iter().map(|(a, b, c)| (a.to_string(), b.to_string(), c.to_string(), true)).collect();
    // generated: the route's literal part is stripped exactly once, also when the rest of the path repeats it
    for route in ["/api/*", "/api*", "/*", "/p/*", "/a*", "/a/*", "/static/*"] {
        let lit = route.split('*').next().unwrap();
        let bare = lit.trim_matches('/');
        let mut tails: Vec<String> = vec!["".into(), "x".into(), "x/y".into(), "/x".into(), "//x".into(), format!("{}/v1", bare), format!("{}v1", lit), format!("/{}", bare), format!("{}{}b", lit, lit), "q?z".into()];
        tails.dedup();
        for t in tails {
            let uri = format!("{}{}", lit, t);
            let path = uri.split('?').next().unwrap();
            let mut want: String = path.chars().skip(lit.chars().count()).collect();
            if !want.starts_with('/') {
                want.insert(0, '/');
            }
            if !combos.iter().any(|c| c.0 == route && c.1 == uri) {
                combos.push((route.to_string(), uri, want, false));
            }
        }
    }
    // a route pattern with a literal after its wildcard: only the part before the `*` is stripped
    combos.push(("/p*t".into(), "/p/xt".into(), "/xt".into(), false));
    combos.push(("/p/*.txt".into(), "/p/a/b.txt".into(), "/a/b.txt".into(), false));
    for (matches, uri, want_uri, full) in combos.iter().map(|c| (c.0.as_str(), c.1.as_str(), c.2.as_str(), c.3)) {
        for mode in ["round-robin", "random"] {
            if !full && mode == "random" {
                continue;
            }
            for (listed, origin_hdr) in [(false, None), (true, None), (true, Some("203.0.113.5")), (false, Some("203.0.113.5"))] {
                if !full && (listed || origin_hdr.is_some()) {
                    continue;
                }
                s.evaluations += 1;
                s.states += 1;
                s.transitions += 1;
                s.nontrivial += 1;
                let out: Arc<Mutex<Option<(u16, Vec<u8>, Vec<(usize, Vec<u8>)>)>>> = Arc::new(Mutex::new(None));
                let o2 = out.clone();
                let dir = crate::report::root().join(".target").join("scratch");
                let _ = std::fs::create_dir_all(&dir);
                let bl = dir.join(format!("bl-{}-{:?}.txt", std::process::id(), std::thread::current().id()));
                // the client connects from 198.51.100.9; blacklist it (or the forwarded origin) when `listed`
                let listed_ip = if origin_hdr.is_some() { "203.0.113.5" } else { "198.51.100.9" };
                std::fs::write(&bl, if listed { listed_ip } else { "192.0.2.1" }).unwrap();
                let conf = format!(
                    "server {{\n  log {{\n    console false\n  }}\n  blacklist {{\n    file \"{}\"\n    mode \"forbidden\"\n  }}\n  route {} {{\n    proxy \"127.0.0.1:9200,127.0.0.1:9201\"\n    load_balancer_mode \"{}\"\n  }}\n}}",
                    bl.display(), matches, mode
                );
                let (uri2, m2) = (uri.to_string(), matches.to_string());
                let r = run_once(vec![], 200_000, &move || {
                    let state = state_from(&conf);
                    let hits = Arc::new(Mutex::new(vec![]));
                    for (i, p) in [9200u16, 9201].iter().enumerate() {
                        let l = TcpListener::bind(format!("127.0.0.1:{}", p)).unwrap();
                        id_server(l, i, hits.clone(), 1);
                    }
                    let (path, q) = uri2.split_once('?').map(|(a, b)| (a.to_string(), Some(b.to_string()))).unwrap_or((uri2.clone(), None));
                    let mut r = Req::new("GET", &path);
                    r.query = q;
                    r.headers = vec![("Host".into(), " ".into(), "x".into())];
                    if let Some(o) = origin_hdr {
                        r.headers.push(("X-Forwarded-For".into(), " ".into(), o.into()));
                    }
                    let req = request_of(&r, "198.51.100.9:777");
                    let route = state.config.get_route(0, 0);
                    let _ = &m2;
                    let resp = proxy_handler(req, state.clone(), route.load_balancer.as_ref().unwrap(), &route.matches);
                    *o2.lock().unwrap() = Some((u16::from(resp.status_code), resp.body.clone(), hits.lock().unwrap().clone()));
                });
                let _ = std::fs::remove_file(&bl);
                let ctx = |what: String| json!({"what": what, "route": matches, "uri": uri, "mode": mode, "client_listed": listed, "x_forwarded_for": origin_hdr});
                if r.deadlock || r.root_panic.is_some() {
                    s.violation("proxy_handler hangs or panics", || ctx(format!("{:?}", r.root_panic)));
                    continue;
                }
                let Some((status, body, hits)) = out.lock().unwrap().take() else { continue };
                if listed {
                    if status != 403 || !hits.is_empty() {
                        s.violation("proxy route served a blacklisted origin", || ctx(format!("status {} upstream hits {}", status, hits.len())));
                    } else {
                        s.outcome("proxy-403");
                    }
                    continue;
                }
                if status != 200 || hits.len() != 1 || body != hits[0].0.to_string().into_bytes() {
                    s.violation("proxy_handler did not return the chosen target's response", || ctx(format!("status {} hits {:?}", status, hits.iter().map(|h| h.0).collect::<Vec<_>>())));
                    continue;
                }
                let text = String::from_utf8_lossy(&hits[0].1).to_string();
                let first = text.lines().next().unwrap_or("").to_string();
                let want_first = format!("GET {}{} HTTP/1.1", want_uri, uri.split_once('?').map(|(_, q)| format!("?{}", q)).unwrap_or_default());
                if first != want_first {
                    s.violation("proxy_handler did not strip the route prefix correctly", || ctx(format!("upstream saw {:?}, expected {:?}", first, want_first)));
                } else {
                    s.outcome("proxied");
                }
            }
        }
    }
    st.merge(s);
}

pub fn run(mut cx: Ctx) -> ! {
    cx.rule = "every upstream behaviour of the bounded family (every modelled status with Content-Length, chunked bodies in every composition, the response delivered in two writes at every split, each of 4 valid responses cut at every byte offset then closed or silent, 12 garbage responses, refused / black-holed / accept-then-close / accept-then-silence / silent after the request / one byte per 50 ms) x client requests is played against the real proxy_request on the simulated network under a virtual clock (one execution each, default schedule); proxy_handler is run for prefix / blacklist / mode combinations; round-robin selection runs 1..3 caller threads x 2 calls against 1..3 (4) targets under every schedule within the deviation bound; states = distinct cases or schedules, transitions = proxy calls or decision points; non-trivial = fault cases and concurrent selection schedules".into();
    let mut st = Stats::default();
    fault_family(&mut st, cx.quick());
    handler_family(&mut st);
    cx.stats.merge(st);
    selection_family(&mut cx);
    cx.bound("timeout_ms", TIMEOUT.as_millis() as u64);
    cx.assume("time is virtual: `within the timeout plus slack` means the call returns no later than timeout + 1 s on the virtual clock, which only advances when every thread is blocked");
    cx.assume("random load-balancer mode is only held to `one of the configured targets answered`");
    cx.finish()
}
