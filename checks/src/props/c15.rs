//! C15 — configuration files load into exactly what they describe, or are rejected with a line.
//! A configuration *model* (subset of non-default features) is rendered in every layout of a
//! bounded family and loaded through parse_conf + Config::from_tree; the result must equal the
//! model field by field. Every single-fault mutant of every rendered line must be rejected, naming
//! file and line for syntax faults (DESIGN.md §3 C15).

use crate::report::{Ctx, Stats};
use humphrey_server::config::config::{BlacklistMode, Config, LoadBalancerMode, RouteType};
use humphrey_server::config::tree::parse_conf;
use humphrey_server::logger::LogLevel;
use rayon::prelude::*;
use serde_json::json;
use std::path::{Path, PathBuf};

#[derive(Clone, Debug, PartialEq)]
pub enum Kind {
    File(String),
    Directory(String),
    Proxy(Vec<String>, Option<&'static str>),
    Redirect(String),
    WsOnly,
}

#[derive(Clone, Debug, PartialEq)]
pub struct RouteM {
    pub patterns: Vec<String>,
    pub kind: Kind,
    pub websocket: Option<String>,
}

#[derive(Clone, Debug, Default, PartialEq)]
pub struct Model {
    pub address: Option<String>,
    pub port: Option<u16>,
    pub threads: Option<usize>,
    pub timeout: Option<u64>,
    pub websocket: Option<String>,
    pub blacklist: Option<Vec<&'static str>>,
    pub blacklist_mode: Option<&'static str>,
    pub log_level: Option<&'static str>,
    pub log_console: Option<bool>,
    pub log_file: Option<String>,
    pub cache_size: Option<(&'static str, usize)>,
    pub cache_time: Option<usize>,
    pub hosts: Vec<(String, bool, Vec<RouteM>)>,
    pub routes: Vec<RouteM>,
}

fn r(patterns: &[&str], kind: Kind, ws: Option<&str>) -> RouteM {
    RouteM { patterns: patterns.iter().map(|s| s.to_string()).collect(), kind, websocket: ws.map(|s| s.to_string()) }
}

/// the feature menu: each entry changes the model in one respect
pub fn features() -> Vec<(&'static str, Box<dyn Fn(&mut Model) -> bool + Sync>)> {
    let mut v: Vec<(&'static str, Box<dyn Fn(&mut Model) -> bool + Sync>)> = vec![];
    v.push(("address", Box::new(|m| { m.address = Some("127.0.0.1".into()); true })));
    v.push(("port", Box::new(|m| { m.port = Some(8080); true })));
    v.push(("threads", Box::new(|m| { m.threads = Some(4); true })));
    v.push(("timeout", Box::new(|m| { m.timeout = Some(5); true })));
    // the smallest values that are still valid / still mean something
    v.push(("threads-1", Box::new(|m| { if m.threads.is_some() { return false; } m.threads = Some(1); true })));
    v.push(("timeout-1", Box::new(|m| { if m.timeout.is_some() { return false; } m.timeout = Some(1); true })));
    v.push(("port-max", Box::new(|m| { if m.port.is_some() { return false; } m.port = Some(65535); true })));
    v.push(("websocket", Box::new(|m| { m.websocket = Some("localhost:1234".into()); true })));
    v.push(("blacklist-file", Box::new(|m| { m.blacklist = Some(vec!["203.0.113.9", "2001:db8::1"]); true })));
    v.push(("blacklist-mode", Box::new(|m| { m.blacklist_mode = Some("forbidden"); true })));
    v.push(("log-level", Box::new(|m| { m.log_level = Some("debug"); true })));
    v.push(("log-level-error", Box::new(|m| { if m.log_level.is_some() { return false; } m.log_level = Some("error"); true })));
    v.push(("log-console", Box::new(|m| { m.log_console = Some(false); true })));
    v.push(("log-file", Box::new(|m| { m.log_file = Some("humphrey.log".into()); true })));
    for (sp, val) in [("0", 0usize), ("512", 512), ("4K", 4096), ("4k", 4096), ("1M", 1 << 20), ("1G", 1 << 30)] {
        v.push(("cache-size", Box::new(move |m| { if m.cache_size.is_some() { return false; } m.cache_size = Some((sp, val)); true })));
    }
    v.push(("cache-time", Box::new(|m| { m.cache_time = Some(60); true })));
    v.push(("host-1", Box::new(|m| { m.hosts.push(("a.test".into(), true, vec![r(&["/*"], Kind::Redirect("http://localhost/".into()), None)])); true })));
    v.push(("host-2", Box::new(|m| { m.hosts.push(("*.b.test".into(), false, vec![r(&["/x"], Kind::File("/var/x.html".into()), None), r(&["/*"], Kind::Directory("/var/www".into()), None)])); true })));
    v.push(("host-empty", Box::new(|m| { m.hosts.push(("empty.test".into(), true, vec![])); true })));
    v.push(("route-file", Box::new(|m| { m.routes.push(r(&["/logo.png"], Kind::File("/var/static/logo.png".into()), None)); true })));
    v.push(("route-directory", Box::new(|m| { m.routes.push(r(&["/*"], Kind::Directory("/var/www".into()), None)); true })));
    v.push(("route-proxy", Box::new(|m| { m.routes.push(r(&["/proxy/*"], Kind::Proxy(vec!["127.0.0.1:8000".into()], None), None)); true })));
    v.push(("route-proxy-3-random", Box::new(|m| { m.routes.push(r(&["/lb/*"], Kind::Proxy(vec!["127.0.0.1:8000".into(), "127.0.0.1:8080".into(), "10.0.0.1:1".into()], Some("random")), None)); true })));
    v.push(("route-proxy-rr", Box::new(|m| { m.routes.push(r(&["/rr/*"], Kind::Proxy(vec!["127.0.0.1:1".into(), "127.0.0.1:2".into()], Some("round-robin")), None)); true })));
    v.push(("route-redirect", Box::new(|m| { m.routes.push(r(&["/home"], Kind::Redirect("/".into()), None)); true })));
    v.push(("route-ws-only", Box::new(|m| { m.routes.push(r(&["/ws"], Kind::WsOnly, Some("localhost:1234"))); true })));
    v.push(("route-multi", Box::new(|m| { m.routes.push(r(&["/static/*", "/images/*", "/i"], Kind::Directory("/var/static".into()), None)); true })));
    v.push(("route-file+ws", Box::new(|m| { m.routes.push(r(&["/both"], Kind::File("/var/b".into()), Some("127.0.0.1:9"))); true })));
    // multi-pattern routes of every other type: each pattern must become a route of that same type
    v.push(("route-multi-file", Box::new(|m| { m.routes.push(r(&["/f1", "/f2"], Kind::File("/var/f.html".into()), None)); true })));
    v.push(("route-multi-file+ws", Box::new(|m| { m.routes.push(r(&["/g1", "/g2", "/g3"], Kind::File("/var/g.html".into()), Some("127.0.0.1:7"))); true })));
    v.push(("route-multi-proxy", Box::new(|m| { m.routes.push(r(&["/p1/*", "/p2/*"], Kind::Proxy(vec!["127.0.0.1:8000".into(), "127.0.0.1:8001".into()], Some("random")), None)); true })));
    v.push(("route-multi-redirect", Box::new(|m| { m.routes.push(r(&["/r1", "/r2"], Kind::Redirect("/".into()), None)); true })));
    v.push(("route-multi-ws-only", Box::new(|m| { m.routes.push(r(&["/w1", "/w2"], Kind::WsOnly, Some("localhost:1"))); true })));
    v
}

#[derive(Clone, Debug)]
pub enum Item {
    Kv(String, String),
    Section(String, Vec<Item>),
}

fn route_item(rt: &RouteM, sep: &str) -> Item {
    let mut body = vec![];
    match &rt.kind {
        Kind::File(p) => body.push(Item::Kv("file".into(), format!("\"{}\"", p))),
        Kind::Directory(p) => body.push(Item::Kv("directory".into(), format!("\"{}\"", p))),
        Kind::Proxy(t, mode) => {
            body.push(Item::Kv("proxy".into(), format!("\"{}\"", t.join(","))));
            if let Some(m) = mode {
                body.push(Item::Kv("load_balancer_mode".into(), format!("\"{}\"", m)));
            }
        }
        Kind::Redirect(t) => body.push(Item::Kv("redirect".into(), format!("\"{}\"", t))),
        Kind::WsOnly => {}
    }
    if let Some(w) = &rt.websocket {
        body.push(Item::Kv("websocket".into(), format!("\"{}\"", w)));
    }
    Item::Section(format!("route {}", rt.patterns.join(sep)), body)
}

pub fn items(m: &Model, bl_path: &Path, reversed: bool) -> Vec<Item> {
    let mut scalars = vec![];
    if let Some(a) = &m.address {
        scalars.push(Item::Kv("address".into(), format!("\"{}\"", a)));
    }
    if let Some(p) = m.port {
        scalars.push(Item::Kv("port".into(), p.to_string()));
    }
    if let Some(t) = m.threads {
        scalars.push(Item::Kv("threads".into(), t.to_string()));
    }
    if let Some(t) = m.timeout {
        scalars.push(Item::Kv("timeout".into(), t.to_string()));
    }
    if let Some(w) = &m.websocket {
        scalars.push(Item::Kv("websocket".into(), format!("\"{}\"", w)));
    }
    let mut sections = vec![];
    if m.blacklist.is_some() || m.blacklist_mode.is_some() {
        let mut b = vec![];
        if m.blacklist.is_some() {
            b.push(Item::Kv("file".into(), format!("\"{}\"", bl_path.display())));
        }
        if let Some(md) = m.blacklist_mode {
            b.push(Item::Kv("mode".into(), format!("\"{}\"", md)));
        }
        sections.push(Item::Section("blacklist".into(), b));
    }
    if m.log_level.is_some() || m.log_console.is_some() || m.log_file.is_some() {
        let mut b = vec![];
        if let Some(l) = m.log_level {
            b.push(Item::Kv("level".into(), format!("\"{}\"", l)));
        }
        if let Some(c) = m.log_console {
            b.push(Item::Kv("console".into(), c.to_string()));
        }
        if let Some(f) = &m.log_file {
            b.push(Item::Kv("file".into(), format!("\"{}\"", f)));
        }
        sections.push(Item::Section("log".into(), b));
    }
    if m.cache_size.is_some() || m.cache_time.is_some() {
        let mut b = vec![];
        if let Some((sp, _)) = m.cache_size {
            b.push(Item::Kv("size".into(), sp.to_string()));
        }
        if let Some(t) = m.cache_time {
            b.push(Item::Kv("time".into(), t.to_string()));
        }
        sections.push(Item::Section("cache".into(), b));
    }
    if reversed {
        scalars.reverse();
        sections.reverse();
        for s in sections.iter_mut() {
            if let Item::Section(_, b) = s {
                b.reverse();
            }
        }
    }
    // hosts and routes keep their (semantic) file order
    let mut ordered = vec![];
    for (name, quoted, routes) in &m.hosts {
        let hdr = if *quoted { format!("host \"{}\"", name) } else { format!("host {}", name) };
        ordered.push(Item::Section(hdr, routes.iter().map(|r| route_item(r, ", ")).collect()));
    }
    for (i, rt) in m.routes.iter().enumerate() {
        ordered.push(route_item(rt, if i % 2 == 0 { ", " } else { "," }));
    }
    let mut all = vec![];
    if reversed {
        all.extend(sections);
        all.extend(ordered);
        all.extend(scalars);
    } else {
        all.extend(scalars);
        all.extend(sections);
        all.extend(ordered);
    }
    vec![Item::Section("server".into(), all)]
}

#[derive(Clone, Copy, Debug)]
pub struct Layout {
    pub indent: &'static str,
    /// 0 none, 1 own-line comments, 2 trailing comments
    pub comments: u8,
    pub blank_lines: bool,
    pub reversed: bool,
    /// 0 = single file; 1 = the k-th inner section is moved to an included file; 2 = ... whose body is included again
    pub include_depth: u8,
    /// what separates a key from its value and a section keyword from its name
    pub sep: &'static str,
}

pub fn layouts() -> Vec<Layout> {
    let mut v = vec![];
    for (indent, comments, blank) in [("", 0u8, false), ("  ", 0, false), ("\t", 0, false), ("  ", 1, true), ("    ", 2, false), ("\t", 2, true)] {
        v.push(Layout { indent, comments, blank_lines: blank, reversed: false, include_depth: 0, sep: " " });
    }
    v.push(Layout { indent: "  ", comments: 0, blank_lines: false, reversed: true, include_depth: 0, sep: " " });
    v.push(Layout { indent: "\t", comments: 1, blank_lines: true, reversed: true, include_depth: 0, sep: " " });
    v.push(Layout { indent: "  ", comments: 0, blank_lines: false, reversed: false, include_depth: 1, sep: " " });
    v.push(Layout { indent: "  ", comments: 2, blank_lines: true, reversed: false, include_depth: 1, sep: " " });
    v.push(Layout { indent: "  ", comments: 0, blank_lines: false, reversed: false, include_depth: 2, sep: " " });
    v.push(Layout { indent: "", comments: 1, blank_lines: false, reversed: true, include_depth: 2, sep: " " });
    // several spaces between key and value and between a section keyword and its name (the documentation's own
    // example aligns values in columns)
    v.push(Layout { indent: "  ", comments: 0, blank_lines: false, reversed: false, include_depth: 0, sep: "   " });
    v.push(Layout { indent: "  ", comments: 2, blank_lines: false, reversed: false, include_depth: 1, sep: "  " });
    v
}

fn render_into(out: &mut String, items: &[Item], depth: usize, l: &Layout) {
    for it in items {
        let pad = l.indent.repeat(depth);
        if l.comments == 1 {
            out.push_str(&format!("{}# about the next line\n", pad));
        }
        let trail = if l.comments == 2 { " # trailing comment" } else { "" };
        match it {
            Item::Kv(k, v) => out.push_str(&format!("{}{}{}{}{}\n", pad, k, l.sep, v, trail)),
            Item::Section(h, body) => {
                out.push_str(&format!("{}{} {{{}\n", pad, h.replacen(' ', l.sep, 1), trail));
                render_into(out, body, depth + 1, l);
                out.push_str(&format!("{}}}{}\n", pad, trail));
            }
        }
        if l.blank_lines {
            out.push('\n');
        }
    }
}

/// returns (main text, [(include path, text)])
pub fn render(items: &[Item], l: &Layout, dir: &Path, which: usize) -> (String, Vec<(PathBuf, String)>) {
    let mut files = vec![];
    let mut top = items.to_vec();
    if l.include_depth > 0 {
        if let Item::Section(_, inner) = &mut top[0] {
            let idxs: Vec<usize> = inner.iter().enumerate().filter(|(_, x)| matches!(x, Item::Section(..))).map(|(i, _)| i).collect();
            if !idxs.is_empty() {
                let k = idxs[which % idxs.len()];
                let moved = inner[k].clone();
                let p1 = dir.join("part1.conf");
                inner[k] = Item::Kv("include".into(), format!("\"{}\"", p1.display()));
                let mut t1 = String::new();
                if l.include_depth == 1 {
                    render_into(&mut t1, &[moved], 0, l);
                } else if let Item::Section(h, body) = moved {
                    let p2 = dir.join("part2.conf");
                    let mut t2 = String::new();
                    render_into(&mut t2, &body, 0, l);
                    files.push((p2.clone(), t2));
                    render_into(&mut t1, &[Item::Section(h, vec![Item::Kv("include".into(), format!("\"{}\"", p2.display()))])], 0, l);
                }
                files.push((p1, t1));
            }
        }
    }
    let mut main = String::new();
    if l.comments > 0 {
        main.push_str("# generated by the C15 check\n\n");
    }
    render_into(&mut main, &top, 0, l);
    (main, files)
}

pub fn load(main: &str, name: &str) -> Result<Config, String> {
    let _call = crate::report::enter(main.as_bytes());
    let tree = parse_conf(main, name).map_err(|e| format!("parse: {}", e))?;
    Config::from_tree(tree).map_err(|e| format!("validate: {}", e))
}

/// None if the loaded configuration is exactly what the model describes
pub fn mismatch(m: &Model, c: &Config) -> Option<String> {
    macro_rules! chk {
        ($name:expr, $got:expr, $want:expr) => {
            if $got != $want {
                return Some(format!("{}: got {:?}, expected {:?}", $name, $got, $want));
            }
        };
    }
    chk!("address", c.address, m.address.clone().unwrap_or("0.0.0.0".into()));
    chk!("port", c.port, m.port.unwrap_or(80));
    chk!("threads", c.threads, m.threads.unwrap_or(32));
    chk!("timeout", c.connection_timeout, m.timeout.map(std::time::Duration::from_secs));
    chk!("websocket", c.default_websocket_proxy, m.websocket.clone());
    let want_list: Vec<std::net::IpAddr> = m.blacklist.as_ref().map(|l| l.iter().map(|a| a.parse().unwrap()).collect()).unwrap_or_default();
    chk!("blacklist.list", c.blacklist.list, want_list);
    chk!("blacklist.mode", c.blacklist.mode, if m.blacklist_mode == Some("forbidden") { BlacklistMode::Forbidden } else { BlacklistMode::Block });
    let lvl = match m.log_level {
        Some("debug") => LogLevel::Debug,
        Some("error") => LogLevel::Error,
        Some("info") => LogLevel::Info,
        _ => LogLevel::Warn,
    };
    chk!("log.level", c.logging.level, lvl);
    chk!("log.console", c.logging.console, m.log_console.unwrap_or(true));
    chk!("log.file", c.logging.file, m.log_file.clone());
    chk!("cache.size", c.cache.size_limit, m.cache_size.map_or(0, |x| x.1));
    chk!("cache.time", c.cache.time_limit, m.cache_time.unwrap_or(0));
    chk!("default_host.matches", c.default_host.matches.as_str(), "*");
    let cmp_routes = |label: String, got: &Vec<humphrey_server::config::config::RouteConfig>, want: &Vec<RouteM>| -> Option<String> {
        let flat: Vec<(String, &RouteM)> = want.iter().flat_map(|r| r.patterns.iter().map(move |p| (p.clone(), r))).collect();
        if got.len() != flat.len() {
            return Some(format!("{}: {} routes, expected {}", label, got.len(), flat.len()));
        }
        for (i, (g, (pat, w))) in got.iter().zip(&flat).enumerate() {
            let (wt, wpath) = match &w.kind {
                Kind::File(p) => (RouteType::File, Some(p.clone())),
                Kind::Directory(p) => (RouteType::Directory, Some(p.clone())),
                Kind::Proxy(..) => (RouteType::Proxy, None),
                Kind::Redirect(t) => (RouteType::Redirect, Some(t.clone())),
                Kind::WsOnly => (RouteType::ExclusiveWebSocket, None),
            };
            if g.matches != *pat || g.route_type != wt || g.path != wpath || g.websocket_proxy != w.websocket {
                return Some(format!("{} route #{}: got ({:?}, {:?}, {:?}, {:?}), expected ({:?}, {:?}, {:?}, {:?})", label, i, g.matches, g.route_type, g.path, g.websocket_proxy, pat, wt, wpath, w.websocket));
            }
            match (&w.kind, &g.load_balancer) {
                (Kind::Proxy(t, mode), Some(lb)) => {
                    let lb = lb.lock().unwrap();
                    let wm = if *mode == Some("random") { LoadBalancerMode::Random } else { LoadBalancerMode::RoundRobin };
                    if lb.targets != *t || lb.mode != wm || lb.index != 0 {
                        return Some(format!("{} route #{}: load balancer {:?}/{:?}, expected {:?}/{:?}", label, i, lb.targets, lb.mode, t, wm));
                    }
                }
                (Kind::Proxy(..), None) => return Some(format!("{} route #{}: proxy route without load balancer", label, i)),
                (_, Some(_)) => return Some(format!("{} route #{}: unexpected load balancer", label, i)),
                _ => {}
            }
        }
        None
    };
    if let Some(e) = cmp_routes("default host".into(), &c.default_host.routes, &m.routes) {
        return Some(e);
    }
    if c.hosts.len() != m.hosts.len() {
        return Some(format!("{} hosts, expected {}", c.hosts.len(), m.hosts.len()));
    }
    for (i, (h, (name, _, routes))) in c.hosts.iter().zip(&m.hosts).enumerate() {
        if h.matches != *name {
            return Some(format!("host #{}: matches {:?}, expected {:?}", i, h.matches, name));
        }
        if let Some(e) = cmp_routes(format!("host #{}", i), &h.routes, routes) {
            return Some(e);
        }
    }
    // the accessor the server's route wiring uses: host 0 is the default host, host k the k-th host section
    for (hi, routes) in std::iter::once(&c.default_host.routes).chain(c.hosts.iter().map(|h| &h.routes)).enumerate() {
        for (ri, want) in routes.iter().enumerate() {
            let got = std::panic::catch_unwind(std::panic::AssertUnwindSafe(|| c.get_route(hi, ri).matches.clone()));
            if got.as_ref().ok() != Some(&want.matches) || !std::ptr::eq(c.get_route(hi, ri), want) {
                return Some(format!("get_route({}, {}): got {:?}, expected the route {:?} of that host", hi, ri, got.ok(), want.matches));
            }
        }
    }
    None
}

fn scratch() -> PathBuf {
    let d = crate::report::root().join(".target").join("scratch").join(format!("c15-{}-{:?}", std::process::id(), std::thread::current().id()));
    std::fs::create_dir_all(&d).unwrap();
    d
}

fn check_model(s: &mut Stats, names: &[&str], m: &Model, do_faults: bool) {
    let dir = scratch();
    let bl = dir.join("blacklist.txt");
    if let Some(l) = &m.blacklist {
        std::fs::write(&bl, l.join("\n")).unwrap();
    }
    s.states += 1;
    if names.len() >= 2 {
        s.nontrivial += 1;
    }
    for (li, l) in layouts().iter().enumerate() {
        let its = items(m, &bl, l.reversed);
        let (main, files) = render(&its, l, &dir, li);
        for (p, t) in &files {
            std::fs::write(p, t).unwrap();
        }
        s.evaluations += 1;
        s.transitions += 1;
        let ctx = |what: String| json!({"what": what, "features": names, "layout": format!("{:?}", l), "config": main.clone(), "includes": files.iter().map(|f| f.1.clone()).collect::<Vec<_>>()});
        let r = std::panic::catch_unwind(|| load(&main, "main.conf"));
        match r {
            Err(_) => s.violation("loading a valid configuration panicked", || ctx("panic".into())),
            Ok(Err(e)) => {
                let class = if l.include_depth > 0 { "a valid configuration split over included files is rejected" } else if l.comments > 0 || l.blank_lines { "a valid configuration with comments / blank lines is rejected" } else { "a valid configuration is rejected" };
                s.violation(class, || ctx(e.clone()));
            }
            Ok(Ok(c)) => match mismatch(m, &c) {
                Some(d) => {
                    let field = d.split(':').next().unwrap_or("").split(" #").next().unwrap_or("").to_string();
                    let class = if l.reversed { format!("loaded configuration differs from what the file describes ({}) when keys are reordered", field) } else if l.include_depth > 0 { format!("loaded configuration differs from what the file describes ({}) with included files", field) } else { format!("loaded configuration differs from what the file describes ({})", field) };
                    s.violation(class, || ctx(d.clone()));
                }
                None => s.outcome("loaded-equal"),
            },
        }
        // single-fault mutants of every line, on three representative layouts
        if do_faults && (li == 1 || li == 8 || li == 10) {
            faults(s, names, &main, &files, li);
        }
        if do_faults && li == 1 {
            nonascii(s, names, &main);
        }
    }
    let _ = std::fs::remove_dir_all(&dir);
}

fn line_kind(line: &str) -> (&str, &str) {
    let t = line.trim();
    match t.split_once(' ') {
        Some((k, v)) => (k, v.trim()),
        None => (t, ""),
    }
}

fn faults(s: &mut Stats, names: &[&str], main: &str, files: &[(PathBuf, String)], li: usize) {
    // faults are injected into the main file and into each included file in turn
    let mut targets: Vec<(Option<usize>, &str, String)> = vec![(None, main, "main.conf".to_string())];
    for (i, (p, t)) in files.iter().enumerate() {
        targets.push((Some(i), t.as_str(), p.display().to_string()));
    }
    for (which, text, fname) in targets {
        let lines: Vec<&str> = text.lines().collect();
        for (i, line) in lines.iter().enumerate() {
            let (k, v) = line_kind(line);
            let mut muts: Vec<(&str, Option<String>, bool)> = vec![]; // (fault, replacement line or None = delete, syntax error with this line expected)
            if k == "}" {
                muts.push(("missing closing brace", None, false));
            } else if line.trim_end().ends_with('{') {
                muts.push(("missing opening brace", Some(line.trim_end().trim_end_matches('{').to_string()), false));
            } else if !k.is_empty() && !v.is_empty() && k != "include" {
                muts.push(("missing value", Some(line.replace(v, "").trim_end().to_string()), true));
                if v.parse::<i64>().is_ok() {
                    muts.push(("abc for a number", Some(line.replace(v, "abc")), true));
                    muts.push(("number with a unit that does not exist", Some(line.replace(v, &format!("{}X", v))), true));
                }
                // a lone quote as the whole value (what an unterminated empty string looks like)
                muts.push(("lone quote as value", Some(line.replacen(v, "\"", 1)), true));
                if v.starts_with('"') {
                    muts.push(("unterminated quote", Some(line.replacen(v, &v[..v.len() - 1], 1)), true));
                    if ["mode", "level", "load_balancer_mode"].contains(&k) {
                        muts.push(("bad enum word", Some(line.replace(v, "\"nonsense\"")), false));
                    }
                }
                if k == "size" && !v.parse::<i64>().is_ok() {
                    muts.push(("unknown size unit", Some(line.replace(v, "4X")), true));
                }
                if k == "size" {
                    // sizes whose byte count does not fit 64 bits (2^63, 2^64 and their neighbours under each unit): a
                    // scaling that wraps or drops bits would load them as small caches
                    for big in ["8589934592G", "17179869184G", "17179869185G", "9999999999999999G", "17592186044416M", "17592186044417M", "18014398509481984K", "18014398509481988K", "9223372036854775807K", "9223372036854775808", "18446744073709551616"] {
                        muts.push(("size that does not fit 64 bits", Some(line.replace(v, big)), true));
                    }
                }
                if k == "console" {
                    muts.push(("not a boolean", Some(line.replace(v, "maybe")), true));
                }
                if k == "port" {
                    muts.push(("port out of range", Some(line.replace(v, "70000")), false));
                }
                if k == "threads" {
                    muts.push(("zero threads", Some(line.replace(v, "0")), false));
                }
            }
            for (fault, repl, want_line) in muts {
                let mut nl: Vec<String> = lines.iter().map(|x| x.to_string()).collect();
                match repl {
                    Some(r) => nl[i] = r,
                    None => {
                        nl.remove(i);
                    }
                }
                let mutated = nl.join("\n");
                s.evaluations += 1;
                s.transitions += 1;
                s.nontrivial += 1;
                // write the mutated file where the loader will find it
                let (main_text, restore): (String, Option<(PathBuf, String)>) = match which {
                    None => (mutated.clone(), None),
                    Some(fi) => {
                        std::fs::write(&files[fi].0, &mutated).unwrap();
                        (main.to_string(), Some((files[fi].0.clone(), files[fi].1.clone())))
                    }
                };
                let r = std::panic::catch_unwind(|| load(&main_text, "main.conf"));
                if let Some((p, t)) = restore {
                    std::fs::write(p, t).unwrap();
                }
                let ctx = |what: String| json!({"what": what, "features": names, "layout_index": li, "fault": fault, "file": fname, "line": i + 1, "original_line": line, "mutated_file": mutated.clone()});
                match r {
                    Err(_) => s.violation(format!("loading a faulty configuration panicked ({})", fault), || ctx("panic".into())),
                    Ok(Ok(_)) => s.violation(format!("a configuration with a fault was accepted ({})", fault), || ctx("loaded without error".into())),
                    Ok(Err(e)) => {
                        if want_line {
                            // the error must name the file and the line; the wording around them is not prescribed
                            let n = (i + 1).to_string();
                            let names_line = e.split(|c: char| !c.is_ascii_digit()).any(|tok| tok == n);
                            let ok = names_line && e.contains(&fname);
                            if !ok {
                                s.violation(format!("syntax error does not name the right file and line ({})", fault), || ctx(e.clone()));
                                continue;
                            }
                        } else if fault == "missing closing brace" && e.starts_with("parse:") && e.contains(&fname) {
                            // a missing closing brace surfaces at or after the faulty line (usually at the end of the file)
                            let ln: Option<usize> = e.split("line ").nth(1).and_then(|x| x.split(':').next()).and_then(|x| x.trim().parse().ok());
                            if ln.map_or(false, |n| n < i + 1) {
                                s.violation(format!("syntax error names a line before the fault ({})", fault), || ctx(e.clone()));
                                continue;
                            }
                        }
                        s.outcome("fault-rejected");
                    }
                }
            }
        }
    }
}

fn nonascii(s: &mut Stats, names: &[&str], main: &str) {
    let chars: Vec<char> = main.chars().collect();
    for i in 0..=chars.len() {
        for ins in ['é', '𝄞'] {
            let mut t: String = chars[..i].iter().collect();
            t.push(ins);
            t.extend(chars[i..].iter());
            s.evaluations += 1;
            s.transitions += 1;
            if std::panic::catch_unwind(|| load(&t, "main.conf")).is_err() {
                s.violation("loading a configuration with a non-ASCII character panicked", || json!({"features": names, "position": i, "inserted": ins.to_string(), "config": t}));
            }
        }
    }
}

pub fn run(mut cx: Ctx) -> ! {
    cx.rule = "every subset of <= 2 (3) features from a 35-entry menu (address, port, threads, timeout, websocket, blacklist file/mode, log level/console/file, cache size in 6 spellings, cache time, hosts quoted/unquoted/empty, routes of all five types incl. multi-pattern, proxy target lists, balancer modes) is rendered in 12 layouts (indentation, comment placement, blank lines, reversed key/section order, sections moved to included files at depth 1 and 2) and loaded with parse_conf + Config::from_tree; the result is compared with the model field by field; every single-fault mutant of every line of three layouts (missing brace, missing value, abc for a number, nonexistent unit, unterminated quote, bad enum word, not a boolean, port/threads out of range), in the main and in included files, must be rejected, naming file and line for syntax faults; a 2-byte and a 4-byte character are inserted at every position (no panic); states = models, transitions = loads; non-trivial = models with >= 2 features and all fault mutants".into();
    let feats = features();
    let k = cx.pick(3, 4);
    cx.bound("features_per_model", k);
    // every subset of at most k features (index-increasing)
    let mut combos: Vec<Vec<usize>> = vec![vec![]];
    let mut frontier: Vec<Vec<usize>> = vec![vec![]];
    for _ in 0..k {
        let mut next = vec![];
        for c in &frontier {
            for i in c.last().map_or(0, |l| l + 1)..feats.len() {
                let mut n = c.clone();
                n.push(i);
                next.push(n);
            }
        }
        combos.extend(next.iter().cloned());
        frontier = next;
    }
    // a full-featured model as well
    combos.push((0..feats.len()).collect());
    let quick = cx.quick();
    let part = combos
        .par_iter()
        .enumerate()
        .fold(Stats::default, |mut s, (ci, combo)| {
            let mut m = Model::default();
            let mut names = vec![];
            for &i in combo {
                if (feats[i].1)(&mut m) {
                    names.push(feats[i].0);
                }
            }
            // fault mutants for all models up to 2 features (every 5th of the 3-feature ones)
            let do_faults = combo.len() <= 2 || (combo.len() == 3 && ci % 5 == 0) || combo.len() > 4;
            let _ = quick;
            check_model(&mut s, &names, &m, do_faults);
            if ci % 97 == 3 {
                s.sample(|| json!({"features": names}));
            }
            s
        })
        .reduce(Stats::default, |mut a, b| {
            a.merge(b);
            a
        });
    cx.stats.merge(part);
    cx.assume("`#` inside quoted strings and unknown keys are outside the documented syntax and not generated");
    cx.assume("inserting a non-ASCII character is only held to `no panic`: inside a quoted string or a key it yields a different valid file, not a fault");
    cx.finish()
}
