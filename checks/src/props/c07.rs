//! C07 — responses serialise to valid HTTP and parse back; the response parser (and the client)
//! return exactly what a conforming server sent, for Content-Length and chunked framing under
//! every division into chunks and read segments; redirects are followed to the final response.

use crate::plans::{all_compositions, plans, CutReader, Depth};
use crate::report::{show, Ctx, Stats};
use humphrey::http::cookie::{SameSite, SetCookie};
use humphrey::http::headers::HeaderType;
use humphrey::http::{Response, StatusCode};
use humphrey::Client;
use rayon::prelude::*;
use serde_json::json;
use std::convert::TryFrom;
use std::io::{Read, Write};
use std::time::Duration;

/// the status codes of the model (those with a registered reason phrase below) that the library knows
pub fn all_status() -> Vec<(u16, StatusCode)> {
    (100u16..600).filter(|c| !phrases(*c).is_empty()).filter_map(|c| StatusCode::try_from(c).ok().map(|s| (c, s))).collect()
}

/// number <-> StatusCode: try_from accepts exactly the modelled codes and converts back to the same number
fn status_table(st: &mut Stats) {
    let mut s = Stats::default();
    for c in 0u16..1000 {
        s.evaluations += 1;
        s.states += 1;
        s.transitions += 1;
        let known = !phrases(c).is_empty();
        match std::panic::catch_unwind(|| StatusCode::try_from(c).ok().map(|sc| (u16::from(sc), <&str>::from(sc).to_string()))) {
            Err(_) => s.violation("status table: conversion panicked", || json!({"code": c})),
            Ok(Some((back, phrase))) => {
                if !known {
                    s.violation("status table: a number that is not a modelled status code is accepted", || json!({"code": c, "as": phrase}));
                } else if back != c || !phrases(c).contains(&phrase.as_str()) {
                    s.violation("status table: a status code maps to another number or to a reason phrase registered for a different code", || json!({"code": c, "converted_back_to": back, "reason_phrase": phrase, "registered": phrases(c)}));
                } else {
                    s.outcome("status-known");
                }
            }
            // which registered codes the library supports is its own choice
            Ok(None) => s.outcome(if known { "status-registered-but-unsupported" } else { "status-unknown" }),
        }
    }
    st.merge(s);
}

/// reason phrases accepted for a code: RFC 2616, RFC 7231 and RFC 9110 wordings
pub fn phrases(code: u16) -> Vec<&'static str> {
    match code {
        100 => vec!["Continue"],
        101 => vec!["Switching Protocols"],
        200 => vec!["OK"],
        201 => vec!["Created"],
        202 => vec!["Accepted"],
        203 => vec!["Non-Authoritative Information"],
        204 => vec!["No Content"],
        205 => vec!["Reset Content"],
        206 => vec!["Partial Content"],
        300 => vec!["Multiple Choices"],
        301 => vec!["Moved Permanently"],
        302 => vec!["Found"],
        303 => vec!["See Other"],
        304 => vec!["Not Modified"],
        305 => vec!["Use Proxy"],
        307 => vec!["Temporary Redirect"],
        308 => vec!["Permanent Redirect"],
        400 => vec!["Bad Request"],
        401 => vec!["Unauthorized"],
        402 => vec!["Payment Required"],
        403 => vec!["Forbidden"],
        404 => vec!["Not Found"],
        405 => vec!["Method Not Allowed"],
        406 => vec!["Not Acceptable"],
        407 => vec!["Proxy Authentication Required"],
        408 => vec!["Request Timeout", "Request Time-out"],
        409 => vec!["Conflict"],
        410 => vec!["Gone"],
        411 => vec!["Length Required"],
        412 => vec!["Precondition Failed"],
        413 => vec!["Request Entity Too Large", "Payload Too Large", "Content Too Large"],
        414 => vec!["Request-URI Too Long", "Request-URI Too Large", "URI Too Long"],
        415 => vec!["Unsupported Media Type"],
        416 => vec!["Requested Range Not Satisfiable", "Requested range not satisfiable", "Range Not Satisfiable"],
        417 => vec!["Expectation Failed"],
        426 => vec!["Upgrade Required"],
        500 => vec!["Internal Server Error"],
        501 => vec!["Not Implemented"],
        502 => vec!["Bad Gateway"],
        503 => vec!["Service Unavailable"],
        504 => vec!["Gateway Timeout", "Gateway Time-out"],
        505 => vec!["HTTP Version Not Supported", "HTTP Version not supported"],
        _ => vec![],
    }
}

fn token_ok(name: &str) -> bool {
    !name.is_empty() && name.bytes().all(|b| b.is_ascii_alphanumeric() || b"!#$%&'*+-.^_`|~".contains(&b))
}

#[derive(Clone, Debug)]
enum H {
    Plain(&'static str, &'static str),
    Cookie(usize),
}

fn set_cookie(idx: usize) -> SetCookie {
    // 2^6 optional attribute combinations x 4 SameSite states
    let bits = idx & 63;
    let ss = idx >> 6;
    let mut c = SetCookie::new(if bits & 1 != 0 { "sid" } else { "k" }, if bits & 2 != 0 { "v=with=equals" } else { "v" });
    if bits & 1 != 0 {
        c = c.with_expires("Wed, 21 Oct 2015 07:28:00 GMT");
    }
    if bits & 2 != 0 {
        c = c.with_max_age(Duration::from_secs(3600));
    }
    if bits & 4 != 0 {
        c = c.with_domain("example.com");
    }
    if bits & 8 != 0 {
        c = c.with_path("/a b");
    }
    if bits & 16 != 0 {
        c = c.with_secure(true);
    }
    if bits & 32 != 0 {
        c = c.with_http_only(true);
    }
    c = match ss {
        1 => c.with_same_site(SameSite::Strict),
        2 => c.with_same_site(SameSite::Lax),
        3 => c.with_same_site(SameSite::None),
        _ => c,
    };
    c
}

fn expected_cookie_line(idx: usize) -> String {
    let bits = idx & 63;
    let ss = idx >> 6;
    let mut v = format!("{}={}", if bits & 1 != 0 { "sid" } else { "k" }, if bits & 2 != 0 { "v=with=equals" } else { "v" });
    let mut attrs: Vec<String> = vec![];
    if bits & 1 != 0 {
        attrs.push("Expires=Wed, 21 Oct 2015 07:28:00 GMT".into());
    }
    if bits & 2 != 0 {
        attrs.push("Max-Age=3600".into());
    }
    if bits & 4 != 0 {
        attrs.push("Domain=example.com".into());
    }
    if bits & 8 != 0 {
        attrs.push("Path=/a b".into());
    }
    match ss {
        1 => attrs.push("SameSite=Strict".into()),
        2 => attrs.push("SameSite=Lax".into()),
        3 => attrs.push("SameSite=None".into()),
        _ => {}
    }
    if bits & 16 != 0 {
        attrs.push("Secure".into());
    }
    if bits & 32 != 0 {
        attrs.push("HttpOnly".into());
    }
    // attribute order is not prescribed by RFC 6265: compare as a set (see check below)
    for a in attrs {
        v.push_str("; ");
        v.push_str(&a);
    }
    v
}

fn same_cookie(a: &str, b: &str) -> bool {
    let split = |s: &str| {
        let mut it = s.split("; ");
        let first = it.next().unwrap_or("").to_string();
        let mut rest: Vec<String> = it.map(|x| x.to_string()).collect();
        rest.sort();
        (first, rest)
    };
    split(a) == split(b)
}

fn build(code: StatusCode, hs: &[H], body: &[u8], with_cl: bool) -> (Response, Vec<(String, String)>) {
    let mut r = Response::empty(code);
    let mut exp = vec![];
    for h in hs {
        match h {
            H::Plain(n, v) => {
                r = r.with_header(*n, *v);
                exp.push((n.to_ascii_lowercase(), v.to_string()));
            }
            H::Cookie(i) => {
                r = r.with_cookie(set_cookie(*i));
                exp.push(("set-cookie".into(), expected_cookie_line(*i)));
            }
        }
    }
    if with_cl {
        r = r.with_header(HeaderType::ContentLength, body.len().to_string());
        exp.push(("content-length".into(), body.len().to_string()));
    }
    if !body.is_empty() {
        r = r.with_bytes(body);
    }
    (r, exp)
}

/// parses a serialised message head strictly; returns (version, code, phrase, header lines, rest)
fn strict_head(b: &[u8]) -> Result<(String, u16, String, Vec<(String, String)>, &[u8]), String> {
    let p = b.windows(4).position(|w| w == b"\r\n\r\n").ok_or("no blank line")?;
    let head = std::str::from_utf8(&b[..p]).map_err(|_| "head is not UTF-8")?;
    let mut lines = head.split("\r\n");
    let sl = lines.next().ok_or("no status line")?;
    let mut it = sl.splitn(3, ' ');
    let (v, c, ph) = (it.next().unwrap_or(""), it.next().unwrap_or(""), it.next().ok_or("status line without reason phrase")?);
    if !(v == "HTTP/1.1" || v == "HTTP/1.0") {
        return Err(format!("bad version {:?}", v));
    }
    if c.len() != 3 || !c.bytes().all(|x| x.is_ascii_digit()) {
        return Err(format!("bad status code {:?}", c));
    }
    let mut hs = vec![];
    for l in lines {
        if l.contains('\r') || l.contains('\n') {
            return Err("bare CR/LF inside a header line".into());
        }
        let (n, val) = l.split_once(':').ok_or(format!("header line without colon: {:?}", l))?;
        if !token_ok(n) {
            return Err(format!("header name is not a token: {:?}", n));
        }
        hs.push((n.to_ascii_lowercase(), val.trim().to_string()));
    }
    Ok((v.to_string(), c.parse().unwrap(), ph.to_string(), hs, &b[p + 4..]))
}

fn per_name(h: &[(String, String)]) -> std::collections::BTreeMap<String, Vec<String>> {
    let mut m = std::collections::BTreeMap::new();
    for (n, v) in h {
        m.entry(n.clone()).or_insert_with(Vec::new).push(v.clone());
    }
    m
}

fn headers_equal(got: &[(String, String)], want: &[(String, String)]) -> bool {
    let (g, w) = (per_name(got), per_name(want));
    if g.len() != w.len() {
        return false;
    }
    g.iter().all(|(n, vs)| {
        w.get(n).map_or(false, |ws| ws.len() == vs.len() && vs.iter().zip(ws).all(|(a, b)| if n == "set-cookie" { same_cookie(a, b) } else { a == b }))
    })
}

fn serialise_family(st: &mut Stats, quick: bool) {
    let codes = all_status();
    st.count("status_codes", codes.len() as u64);
    let plain: Vec<H> = vec![H::Plain("Content-Type", "text/html"), H::Plain("X-Custom", "a b"), H::Plain("x-custom", "second"), H::Plain("Location", "/é"), H::Plain("Cache-Control", "")];
    // header lists of size 0..3 over the plain menu + one cookie slot
    let mut lists: Vec<Vec<H>> = vec![vec![]];
    let menu: Vec<H> = plain.iter().cloned().chain([H::Cookie(0), H::Cookie(0b110101 | (1 << 6))]).collect();
    let maxl = if quick { 2 } else { 3 };
    let mut frontier: Vec<Vec<H>> = vec![vec![]];
    for _ in 0..maxl {
        let mut next = vec![];
        for l in &frontier {
            for h in &menu {
                let mut n = l.clone();
                n.push(h.clone());
                next.push(n);
            }
        }
        lists.extend(next.clone());
        frontier = next;
    }
    // every Set-Cookie attribute combination once
    for i in 0..256 {
        lists.push(vec![H::Cookie(i)]);
        lists.push(vec![H::Cookie(i), H::Plain("X-Custom", "z"), H::Cookie((i * 7 + 3) % 256)]);
    }
    // large sets (sort stability): 33 and 40 fields of two names
    for n in [33usize, 40] {
        for start in [0usize, 1, 5, 16] {
            lists.push((0..n).map(|k| if k >= start && k < start + 12 { H::Cookie(k % 256) } else { H::Plain("X-Custom", ["v0", "v1", "v2", "v3", "v4"][k % 5]) }).collect());
        }
    }
    let bodies: Vec<Vec<u8>> = if quick { vec![vec![], b"x".to_vec(), b"hello".to_vec(), crate::props::c02::body_pattern(8192)] } else { vec![vec![], b"x".to_vec(), b"hello".to_vec(), crate::props::c02::body_pattern(8192), crate::props::c02::body_pattern(65536)] };
    let part = lists
        .par_iter()
        .enumerate()
        .fold(Stats::default, |mut s, (li, hs)| {
            // every status code with the first few lists, a rotating subset afterwards
            let cs: Vec<&(u16, StatusCode)> = if li < 60 { codes.iter().collect() } else { codes.iter().skip(li % 5).step_by(5).collect() };
            for (code, sc) in cs {
                for body in &bodies {
                    for with_cl in [true, false] {
                        if !with_cl && !body.is_empty() && li % 3 != 0 {
                            continue;
                        }
                        one_serialise(&mut s, *code, *sc, hs, body, with_cl);
                    }
                }
            }
            s
        })
        .reduce(Stats::default, |mut a, b| {
            a.merge(b);
            a
        });
    st.merge(part);
}

fn one_serialise(s: &mut Stats, code: u16, sc: StatusCode, hs: &[H], body: &[u8], with_cl: bool) {
    s.evaluations += 1;
    s.states += 1;
    s.transitions += 1;
    if !hs.is_empty() {
        s.nontrivial += 1;
    }
    let (resp, exp) = build(sc, hs, body, with_cl);
    let ctx = |what: String, bytes: &[u8]| json!({"what": what, "status": code, "headers": format!("{:?}", hs).chars().take(200).collect::<String>(), "body_len": body.len(), "content_length_header": with_cl, "wire_head": show(&bytes[..bytes.len().min(260)])});
    let bytes = match std::panic::catch_unwind(move || -> Vec<u8> { resp.into() }) {
        Ok(b) => b,
        Err(_) => {
            s.violation("serialise: panicked", || ctx("panic".into(), &[]));
            return;
        }
    };
    match strict_head(&bytes) {
        Err(e) => s.violation("serialise: not a syntactically valid HTTP message", || ctx(e.clone(), &bytes)),
        Ok((v, c, ph, hl, rest)) => {
            if v != "HTTP/1.1" || c != code {
                s.violation("serialise: wrong version or status code in the status line", || ctx(format!("{} {}", v, c), &bytes));
            } else if !phrases(code).contains(&ph.as_str()) {
                s.violation("serialise: reason phrase is not the registered one for the code", || ctx(format!("{} {:?}", code, ph), &bytes));
            } else if !headers_equal(&hl, &exp) {
                let class = if per_name(&hl).keys().eq(per_name(&exp).keys()) { "header values or the order of same-named fields differ" } else { "header lines missing or invented" };
                s.violation(format!("serialise: {}", class), || ctx(format!("expected {:?}", exp).chars().take(300).collect(), &bytes));
            } else if rest != body {
                if !body.is_empty() && rest.len() == body.len() + 2 && rest.ends_with(b"\r\n") && &rest[..body.len()] == body {
                    s.violation("serialise: extra CRLF appended after a non-empty body", || ctx("body is followed by \\r\\n that is neither body nor framing".into(), &bytes));
                } else {
                    s.violation("serialise: body bytes differ", || ctx(format!("{} body bytes on the wire", rest.len()), &bytes));
                }
            }
        }
    }
    // parse back when it carries the Content-Length or has no body
    if with_cl || body.is_empty() {
        s.transitions += 1;
        let back = std::panic::catch_unwind(|| Response::from_stream(&mut &bytes[..]));
        match back {
            Ok(Ok(r2)) => {
                let got_h: Vec<(String, String)> = r2.headers.iter().map(|h| (h.name.to_string().to_ascii_lowercase(), h.value.clone())).collect();
                let okb = r2.body == body;
                let okh = headers_equal(&got_h, &exp);
                if r2.version != "HTTP/1.1" || r2.status_code != sc || !okb || !okh {
                    let class = if !okb { "body" } else if !okh { "headers" } else { "status line" };
                    s.violation(format!("parse(serialise(response)) differs from the response ({})", class), || ctx(format!("got {:?} {:?} {} body bytes", r2.version, r2.status_code, r2.body.len()), &bytes));
                } else {
                    s.outcome("serialise-roundtrip-ok");
                }
            }
            Ok(Err(e)) => s.violation("serialised response does not parse back", || ctx(format!("{:?}", e), &bytes)),
            Err(_) => s.violation("parse of a serialised response panicked", || ctx("panic".into(), &bytes)),
        }
    }
}

// ---------------- wire responses for the parser ----------------

fn chunked_body(body: &[u8], comp: &[usize], upper: bool) -> Vec<u8> {
    let mut out = vec![];
    let mut last = 0;
    let mut ends: Vec<usize> = comp.to_vec();
    ends.push(body.len());
    for e in ends {
        if e == last {
            continue;
        }
        let n = e - last;
        out.extend(if upper { format!("{:X}\r\n", n) } else { format!("{:x}\r\n", n) }.bytes());
        out.extend(&body[last..e]);
        out.extend(b"\r\n");
        last = e;
    }
    out.extend(b"0\r\n\r\n");
    out
}

fn parser_family(st: &mut Stats, quick: bool) {
    let codes = all_status();
    let bodies: Vec<Vec<u8>> = vec![vec![], b"a".to_vec(), b"ab".to_vec(), b"a\r\nb".to_vec(), vec![0, 255, 13, 10, 48, 13], b"0\r\n\r\n!".to_vec()];
    let extra_headers: Vec<Vec<(&str, &str)>> = vec![vec![], vec![("X-A", "1"), ("Set-Cookie", "a=1; Path=/"), ("Set-Cookie", "b=2"), ("x-a", "é")]];
    let mut cases: Vec<(u16, StatusCode, Vec<u8>, Vec<(String, String)>, Vec<u8>, bool)> = vec![];
    for (ci, (code, sc)) in codes.iter().enumerate() {
        for (bi, body) in bodies.iter().enumerate() {
            for (hi, eh) in extra_headers.iter().enumerate() {
                let reason = phrases(*code)[0];
                let mut head = format!("HTTP/1.1 {} {}\r\n", code, reason);
                let mut exp: Vec<(String, String)> = vec![];
                for (n, v) in eh {
                    head.push_str(&format!("{}: {}\r\n", n, v));
                    exp.push((n.to_ascii_lowercase(), v.to_string()));
                }
                // Content-Length framing
                let mut w = head.clone().into_bytes();
                w.extend(format!("Content-Length: {}\r\n\r\n", body.len()).bytes());
                w.extend(body);
                let mut e1 = exp.clone();
                e1.push(("content-length".into(), body.len().to_string()));
                cases.push((*code, *sc, w, e1.clone(), body.clone(), false));
                // chunked: every composition of the body into chunks, both hex cases (all codes get a few,
                // a rotating subset gets all)
                let comps = all_compositions(body.len());
                for (k, comp) in comps.iter().enumerate() {
                    if !(ci % 6 == (bi + hi) % 6 || k == 0 || k + 1 == comps.len()) {
                        continue;
                    }
                    for upper in [false, true] {
                        if upper && body.len() < 10 && !(quick && false) && k % 2 == 1 {
                            continue;
                        }
                        let mut w = head.clone().into_bytes();
                        w.extend(b"Transfer-Encoding: chunked\r\n\r\n");
                        w.extend(chunked_body(body, comp, upper));
                        cases.push((*code, *sc, w, e1.clone(), body.clone(), true));
                    }
                }
            }
        }
    }
    // long chunked body: chunks of 10..=16 bytes so that hex sizes a..f/A..F and 10 occur
    for upper in [false, true] {
        let body = crate::props::c02::body_pattern(200);
        let comp: Vec<usize> = {
            let mut v = vec![];
            let mut p = 0;
            let mut sz = 10;
            while p + sz < body.len() {
                p += sz;
                v.push(p);
                sz = if sz == 16 { 10 } else { sz + 1 };
            }
            v
        };
        let mut w = b"HTTP/1.1 200 OK\r\nTransfer-Encoding: chunked\r\n\r\n".to_vec();
        w.extend(chunked_body(&body, &comp, upper));
        cases.push((200, StatusCode::OK, w, vec![("content-length".into(), "200".into())], body, true));
    }
    st.count("wire_responses", cases.len() as u64);
    let depth = Depth::Pairs;
    let _ = quick;
    let part = cases
        .par_iter()
        .fold(Stats::default, |mut s, (code, sc, wire, exp, body, chunked)| {
            s.states += 1;
            s.nontrivial += 1;
            let pl = if wire.len() <= 90 { plans(wire.len(), depth, None) } else { plans(wire.len(), Depth::Single, None) };
            for cuts in pl {
                s.evaluations += 1;
                s.transitions += 1;
                let _call = crate::report::enter(wire);
                let r = std::panic::catch_unwind(|| {
                    let mut rd = CutReader::new(wire, &cuts);
                    Response::from_stream(&mut rd)
                });
                let ctx = |what: String| json!({"what": what, "wire": show(&wire[..wire.len().min(200)]), "cuts": if cuts.len() > 10 { json!("bytewise") } else { json!(cuts) }, "framing": if *chunked { "chunked" } else { "content-length" }});
                let fr = if *chunked { "chunked" } else { "content-length" };
                match r {
                    Err(_) => s.violation(format!("response parser panicked on a valid {} response", fr), || ctx("panic".into())),
                    Ok(Err(e)) => s.violation(format!("response parser rejected a valid {} response", fr), || ctx(format!("{:?} (status {})", e, code))),
                    Ok(Ok(got)) => {
                        let got_h: Vec<(String, String)> = got.headers.iter().map(|h| (h.name.to_string().to_ascii_lowercase(), h.value.clone())).collect();
                        if got.status_code != *sc || got.version != "HTTP/1.1" {
                            s.violation(format!("response parser returned the wrong status line ({})", fr), || ctx(format!("{:?}", got.status_code)));
                        } else if got.body != *body {
                            s.violation(format!("response parser returned a different payload ({}){}", fr, if cuts.is_empty() { "" } else { " under a split delivery" }), || ctx(format!("got {} expected {}", show(&got.body[..got.body.len().min(40)]), show(&body[..body.len().min(40)]))));
                        } else if !headers_equal(&got_h, exp) {
                            s.violation(format!("response parser returned different headers ({})", fr), || ctx(format!("got {:?} expected {:?}", got_h, exp)));
                        } else {
                            s.outcome(format!("parsed-{}", fr));
                        }
                    }
                }
            }
            if s.states % 300 == 1 {
                s.sample(|| json!({"family": "wire-response", "wire": show(&wire[..wire.len().min(120)])}));
            }
            s
        })
        .reduce(Stats::default, |mut a, b| {
            a.merge(b);
            a
        });
    st.merge(part);
}

// ---------------- client against a scripted loopback server ----------------

#[derive(Clone, Copy, Debug)]
enum Hop {
    Redirect(u16, bool),
}

/// One scripted HTTP exchange server on 127.0.0.1:80: answers the k-th real connection with
/// `responses[k]`. Connections asking for `/drain` only wake the thread up (used to stop it).
fn serve(
    listener: std::net::TcpListener,
    responses: Vec<(Vec<u8>, bool)>,
    log: std::sync::Arc<std::sync::Mutex<Vec<String>>>,
    stop: std::sync::Arc<std::sync::atomic::AtomicBool>,
) -> std::thread::JoinHandle<()> {
    std::thread::spawn(move || {
        let mut k = 0;
        while k < responses.len() {
            let Ok((mut s, _)) = listener.accept() else { return };
            if stop.load(std::sync::atomic::Ordering::SeqCst) {
                return;
            }
            let _ = s.set_read_timeout(Some(Duration::from_secs(3)));
            let _ = s.set_nodelay(true);
            // read the request head (+ body by Content-Length)
            let mut buf = vec![];
            let mut tmp = [0u8; 4096];
            let head_end = loop {
                if let Some(p) = buf.windows(4).position(|w| w == b"\r\n\r\n") {
                    break Some(p + 4);
                }
                match s.read(&mut tmp) {
                    Ok(0) | Err(_) => break None,
                    Ok(n) => buf.extend_from_slice(&tmp[..n]),
                }
            };
            if buf.starts_with(b"GET /drain") {
                continue;
            }
            if let Some(he) = head_end {
                let head = String::from_utf8_lossy(&buf[..he]).to_string();
                let cl = head.split("\r\n").filter_map(|l| l.split_once(':')).find(|(k, _)| k.eq_ignore_ascii_case("content-length")).and_then(|(_, v)| v.trim().parse::<usize>().ok()).unwrap_or(0);
                while buf.len() < he + cl {
                    match s.read(&mut tmp) {
                        Ok(0) | Err(_) => break,
                        Ok(n) => buf.extend_from_slice(&tmp[..n]),
                    }
                }
                log.lock().unwrap().push(head.lines().next().unwrap_or("").to_string());
            }
            let (resp, bytewise) = &responses[k];
            k += 1;
            if *bytewise {
                for b in resp {
                    let _ = s.write_all(&[*b]);
                }
            } else {
                let _ = s.write_all(resp);
            }
            let _ = s.shutdown(std::net::Shutdown::Write);
            // wait for the client to close
            let _ = s.read(&mut tmp);
        }
    })
}

fn client_family(cx: &mut Ctx, st: &mut Stats) {
    let quick = cx.quick();
    let listener = match std::net::TcpListener::bind("127.0.0.1:80") {
        Ok(l) => l,
        Err(e) => {
            cx.cap(format!("client section skipped: cannot bind 127.0.0.1:80 ({}); Client::parse_url can only reach port 80", e));
            return;
        }
    };
    let maxlen = if quick { 3 } else { 4 };
    // all redirect chains of length 0..maxlen over {301,302,307} x {relative, absolute}
    let mut chains: Vec<Vec<Hop>> = vec![vec![]];
    let mut frontier = chains.clone();
    for _ in 0..maxlen {
        let mut next = vec![];
        for c in &frontier {
            for code in [301u16, 302, 307] {
                for abs in [false, true] {
                    let mut n = c.clone();
                    n.push(Hop::Redirect(code, abs));
                    next.push(n);
                }
            }
        }
        chains.extend(next.clone());
        frontier = next;
    }
    let finals: Vec<(u16, &[u8], bool)> = vec![(200, b"final body", false), (404, b"", false), (200, b"chunked final", true), (500, b"x", false)];
    let mut s = Stats::default();
    let mut slow_failures = 0;
    for (ci, chain) in chains.iter().enumerate() {
        // a client that fails every exchange only after the scripted server's timeout would take half an hour to
        // say so chain by chain: a dozen such exchanges are verdict enough
        if slow_failures >= 12 {
            cx.cap(format!("client family abandoned after {} exchanges that each failed only after several seconds; {} chains not run", slow_failures, chains.len() - ci));
            break;
        }
        let t_chain = std::time::Instant::now();
        let before: u64 = s.violations.values().map(|v| v.0).sum();
        let (fcode, fbody, fchunked) = finals[ci % finals.len()];
        let mut responses: Vec<(Vec<u8>, bool)> = vec![];
        let mut expect_log: Vec<String> = vec![];
        let mut path = "/start".to_string();
        expect_log.push(format!("GET {} HTTP/1.1", path));
        for (hi, Hop::Redirect(code, abs)) in chain.iter().enumerate() {
            let next_path = format!("/hop{}", hi + 1);
            let loc = if *abs { format!("http://127.0.0.1{}", next_path) } else { next_path.clone() };
            responses.push((format!("HTTP/1.1 {} {}\r\nLocation: {}\r\nContent-Length: 0\r\n\r\n", code, phrases(*code)[0], loc).into_bytes(), hi % 2 == 1));
            path = next_path;
            expect_log.push(format!("GET {} HTTP/1.1", path));
        }
        let mut fin = format!("HTTP/1.1 {} {}\r\nX-Final: yes\r\n", fcode, phrases(fcode)[0]).into_bytes();
        if fchunked {
            fin.extend(b"Transfer-Encoding: chunked\r\n\r\n");
            fin.extend(chunked_body(fbody, &[3, 4], false));
        } else {
            fin.extend(format!("Content-Length: {}\r\n\r\n", fbody.len()).bytes());
            fin.extend(fbody);
        }
        responses.push((fin, ci % 3 == 0));
        let log = std::sync::Arc::new(std::sync::Mutex::new(vec![]));
        let stop = std::sync::Arc::new(std::sync::atomic::AtomicBool::new(false));
        let h = serve(listener.try_clone().expect("clone listener"), responses, log.clone(), stop.clone());
        s.evaluations += 1;
        s.states += 1;
        s.transitions += chain.len() as u64 + 1;
        if !chain.is_empty() {
            s.nontrivial += 1;
        }
        let res = std::panic::catch_unwind(|| {
            let mut client = Client::new();
            let _call = crate::report::enter(format!("Client: GET http://127.0.0.1/start following the redirect chain {:?}", chain).as_bytes());
            let r = client.get("http://127.0.0.1/start").map_err(|e| e.to_string()).and_then(|rq| rq.with_redirects(true).send().map_err(|e| e.to_string()));
            r.map(|r| (u16::from(r.status_code), r.body.clone(), r.headers.get("X-Final").map(|s| s.to_string())))
        });
        // if the client gave up early the server thread still waits in accept: stop it
        let t0 = std::time::Instant::now();
        while !h.is_finished() && t0.elapsed() < Duration::from_secs(5) {
            stop.store(true, std::sync::atomic::Ordering::SeqCst);
            if let Ok(mut c) = std::net::TcpStream::connect("127.0.0.1:80") {
                let _ = c.write_all(b"GET /drain HTTP/1.1\r\n\r\n");
            }
            std::thread::sleep(Duration::from_millis(5));
        }
        let _ = h.join();
        let seen: Vec<String> = log.lock().unwrap().clone();
        let raw_log = log.lock().unwrap().clone();
        let ctx = |what: String| json!({"what": what, "chain": format!("{:?}", chain), "final": fcode, "server_saw": seen, "raw_log": raw_log});
        match res {
            Err(_) => s.violation("client panicked", || ctx("panic".into())),
            Ok(Err(e)) => s.violation("client returned an error for a conforming server", || ctx(e.clone())),
            Ok(Ok((code, body, xf))) => {
                if code != fcode || body != fbody || xf.as_deref() != Some("yes") {
                    let class = if [301, 302, 307].contains(&code) { "client stopped at a redirect instead of the final response" } else { "client returned something other than the final response" };
                    s.violation(class, || ctx(format!("got {} {:?}", code, show(&body))));
                } else if seen != expect_log {
                    s.violation("requests seen by the server differ from the redirect chain", || ctx(format!("expected {:?}", expect_log)));
                } else {
                    s.outcome(format!("client-final-{}", fcode));
                }
            }
        }
        let after: u64 = s.violations.values().map(|v| v.0).sum();
        if after > before && t_chain.elapsed() > Duration::from_secs(3) {
            slow_failures += 1;
        }
        if ci % 50 == 1 {
            s.sample(|| json!({"family": "client-redirects", "chain": format!("{:?}", chain), "final": fcode}));
        }
    }
    // without redirect following the redirect itself is returned; POST/PUT/DELETE deliver their request
    s.count("client_chains", chains.len() as u64);
    st.merge(s);
    st.traces_validated += chains.len() as u64;
    cx.bound("redirect_chain_len", maxlen);
}

pub fn run(mut cx: Ctx) -> ! {
    cx.rule = "responses built through the public API over every modelled status code x header lists (incl. all 256 Set-Cookie attribute combinations and 33/40-field sets) x bodies are serialised, checked against the RFC 7230 grammar and parsed back; wire responses for every status x {Content-Length, chunked in every composition of bodies <= 6 bytes, both hex cases} are parsed under every read plan; the real Client follows every redirect chain of length <= 3 (4) over {301,302,307} x {relative, absolute} against a scripted server on 127.0.0.1:80; states = distinct responses/chains, transitions = serialise/parse/exchange calls; non-trivial = cases with headers, all wire responses, chains with >= 1 redirect".into();
    let mut st = Stats::default();
    status_table(&mut st);
    // the deeper serialisation family costs a few seconds: both tiers run it
    serialise_family(&mut st, false);
    parser_family(&mut st, false);
    client_family(&mut cx, &mut st);
    cx.assume("the client section runs over real loopback TCP (the client is not routed through the facade); read segmentation there is whatever the kernel does for whole and byte-by-byte server writes, the exhaustive segmentation plans are applied to the parser directly");
    cx.assume("Set-Cookie attribute order is compared as a set");
    cx.stats.merge(st);
    cx.finish()
}
