//! C18 — SHA-1, Base64, percent-encoding, HTTP dates: exhaustive domains against references.

use crate::report::{Ctx, Stats};
use humphrey::http::date::DateTime;
use humphrey::percent::{PercentDecode, PercentEncode};
use humphrey_ws::verif::{Base64Decode, Base64Encode, SHA1Hash};
use rayon::prelude::*;
use serde_json::json;

// ---------------- references ----------------
pub fn ref_sha1(msg: &[u8]) -> [u8; 20] {
    let mut h: [u32; 5] = [0x67452301, 0xEFCDAB89, 0x98BADCFE, 0x10325476, 0xC3D2E1F0];
    let mut m = msg.to_vec();
    let bits = (msg.len() as u64).wrapping_mul(8);
    m.push(0x80);
    while m.len() % 64 != 56 {
        m.push(0);
    }
    m.extend_from_slice(&bits.to_be_bytes());
    for block in m.chunks(64) {
        let mut w = [0u32; 80];
        for t in 0..16 {
            w[t] = u32::from_be_bytes([block[4 * t], block[4 * t + 1], block[4 * t + 2], block[4 * t + 3]]);
        }
        for t in 16..80 {
            w[t] = (w[t - 3] ^ w[t - 8] ^ w[t - 14] ^ w[t - 16]).rotate_left(1);
        }
        let (mut a, mut b, mut c, mut d, mut e) = (h[0], h[1], h[2], h[3], h[4]);
        for t in 0..80 {
            let (f, k) = if t < 20 {
                ((b & c) | ((!b) & d), 0x5A827999u32)
            } else if t < 40 {
                (b ^ c ^ d, 0x6ED9EBA1)
            } else if t < 60 {
                ((b & c) | (b & d) | (c & d), 0x8F1BBCDC)
            } else {
                (b ^ c ^ d, 0xCA62C1D6)
            };
            let tmp = a.rotate_left(5).wrapping_add(f).wrapping_add(e).wrapping_add(k).wrapping_add(w[t]);
            e = d;
            d = c;
            c = b.rotate_left(30);
            b = a;
            a = tmp;
        }
        h[0] = h[0].wrapping_add(a);
        h[1] = h[1].wrapping_add(b);
        h[2] = h[2].wrapping_add(c);
        h[3] = h[3].wrapping_add(d);
        h[4] = h[4].wrapping_add(e);
    }
    let mut out = [0u8; 20];
    for i in 0..5 {
        out[4 * i..4 * i + 4].copy_from_slice(&h[i].to_be_bytes());
    }
    out
}

const B64: &[u8; 64] = b"ABCDEFGHIJKLMNOPQRSTUVWXYZabcdefghijklmnopqrstuvwxyz0123456789+/";

pub fn ref_b64_encode(b: &[u8]) -> String {
    let mut s = String::new();
    for ch in b.chunks(3) {
        let n = (ch[0] as u32) << 16 | (*ch.get(1).unwrap_or(&0) as u32) << 8 | *ch.get(2).unwrap_or(&0) as u32;
        s.push(B64[(n >> 18) as usize & 63] as char);
        s.push(B64[(n >> 12) as usize & 63] as char);
        s.push(if ch.len() > 1 { B64[(n >> 6) as usize & 63] as char } else { '=' });
        s.push(if ch.len() > 2 { B64[n as usize & 63] as char } else { '=' });
    }
    s
}

#[derive(Debug, PartialEq)]
pub enum B64Verdict {
    Bytes(Vec<u8>),
    Malformed,
    /// well-formed except for non-zero trailing bits: RFC 4648 §3.5 lets a decoder accept or reject
    NonCanonical(Vec<u8>),
}

pub fn ref_b64_decode(s: &[u8]) -> B64Verdict {
    if s.len() % 4 != 0 {
        return B64Verdict::Malformed;
    }
    let mut out = vec![];
    let mut noncanon = false;
    let groups = s.len() / 4;
    for (gi, g) in s.chunks(4).enumerate() {
        let val = |c: u8| B64.iter().position(|&x| x == c).map(|p| p as u32);
        let pads = g.iter().rev().take_while(|&&c| c == b'=').count();
        if pads > 2 || (pads > 0 && gi != groups - 1) {
            return B64Verdict::Malformed;
        }
        let mut n = 0u32;
        for (i, &c) in g.iter().enumerate() {
            if i >= 4 - pads {
                n <<= 6;
                continue;
            }
            match val(c) {
                Some(v) => n = n << 6 | v,
                None => return B64Verdict::Malformed,
            }
        }
        let bytes = [(n >> 16) as u8, (n >> 8) as u8, n as u8];
        match pads {
            0 => out.extend_from_slice(&bytes),
            1 => {
                if bytes[2] != 0 {
                    noncanon = true;
                }
                out.extend_from_slice(&bytes[..2]);
            }
            _ => {
                if bytes[1] != 0 || bytes[2] != 0 {
                    noncanon = true;
                }
                out.extend_from_slice(&bytes[..1]);
            }
        }
    }
    if noncanon {
        B64Verdict::NonCanonical(out)
    } else {
        B64Verdict::Bytes(out)
    }
}

pub fn ref_pct_encode(b: &[u8]) -> String {
    let mut s = String::new();
    for &c in b {
        if c.is_ascii_alphanumeric() || matches!(c, b'-' | b'_' | b'.' | b'~') {
            s.push(c as char);
        } else {
            s.push('%');
            s.push(b"0123456789ABCDEF"[(c >> 4) as usize] as char);
            s.push(b"0123456789ABCDEF"[(c & 15) as usize] as char);
        }
    }
    s
}

pub fn ref_pct_decode(s: &[u8]) -> Option<Vec<u8>> {
    let hexv = |c: u8| (c as char).to_digit(16).map(|d| d as u8);
    let mut out = vec![];
    let mut i = 0;
    while i < s.len() {
        if s[i] == b'%' {
            if i + 2 >= s.len() + 0 && i + 2 > s.len() - 0 && i + 2 > s.len() {
                return None;
            }
            if i + 2 >= s.len() + 1 {
                return None;
            }
            let (a, b) = (hexv(*s.get(i + 1)?)?, hexv(*s.get(i + 2)?)?);
            out.push(a << 4 | b);
            i += 3;
        } else {
            out.push(s[i]);
            i += 1;
        }
    }
    Some(out)
}

/// days since 1970-01-01 -> (year, month 1..12, day) — Hinnant's civil_from_days
pub fn civil(z: i64) -> (i64, u32, u32) {
    let z = z + 719468;
    let era = if z >= 0 { z } else { z - 146096 } / 146097;
    let doe = (z - era * 146097) as u64;
    let yoe = (doe - doe / 1460 + doe / 36524 - doe / 146096) / 365;
    let y = yoe as i64 + era * 400;
    let doy = doe - (365 * yoe + yoe / 4 - yoe / 100);
    let mp = (5 * doy + 2) / 153;
    let d = (doy - (153 * mp + 2) / 5 + 1) as u32;
    let m = if mp < 10 { mp + 3 } else { mp - 9 } as u32;
    (if m <= 2 { y + 1 } else { y }, m, d)
}

pub fn ref_imf(ts: i64) -> String {
    const D: [&str; 7] = ["Thu", "Fri", "Sat", "Sun", "Mon", "Tue", "Wed"];
    const M: [&str; 12] = ["Jan", "Feb", "Mar", "Apr", "May", "Jun", "Jul", "Aug", "Sep", "Oct", "Nov", "Dec"];
    let days = ts.div_euclid(86400);
    let sec = ts.rem_euclid(86400);
    let (y, m, d) = civil(days);
    format!("{}, {:02} {} {:04} {:02}:{:02}:{:02} GMT", D[days.rem_euclid(7) as usize], d, M[(m - 1) as usize], y, sec / 3600, sec / 60 % 60, sec % 60)
}

// ---------------- CPython cross-check of the references ----------------
fn crosscheck_with_cpython() -> Result<u64, String> {
    let script = r#"
import hashlib,base64,urllib.parse,email.utils,sys
out=[]
for n in list(range(0,140))+[1000,1100,4096]:
    m=bytes(((i*131+7)&255) for i in range(n))
    out.append("S %d %s"%(n,hashlib.sha1(m).hexdigest()))
    out.append("B %d %s"%(n,base64.b64encode(m).decode()))
for b in range(256):
    out.append("P %d %s"%(b,urllib.parse.quote(bytes([b]),safe='')))
for ts in [0,1,86399,86400,951782400,951868800,951868799,1000000000,4102444800,4107542400,253402300799,2**31,1709164800,1709251200]:
    out.append("D %d %s"%(ts,email.utils.formatdate(ts,usegmt=True)))
sys.stdout.write("\n".join(out))
"#;
    let o = std::process::Command::new("python3").arg("-c").arg(script).output().map_err(|e| format!("python3 not runnable: {}", e))?;
    if !o.status.success() {
        return Err(format!("python3 failed: {}", String::from_utf8_lossy(&o.stderr)));
    }
    let mut n = 0u64;
    for line in String::from_utf8_lossy(&o.stdout).lines() {
        let mut it = line.splitn(3, ' ');
        let (k, a, v) = (it.next().unwrap(), it.next().unwrap(), it.next().unwrap_or(""));
        let a: i64 = a.parse().unwrap();
        let mine = match k {
            "S" => {
                let m: Vec<u8> = (0..a as usize).map(|i| ((i * 131 + 7) & 255) as u8).collect();
                ref_sha1(&m).iter().map(|b| format!("{:02x}", b)).collect::<String>()
            }
            "B" => {
                let m: Vec<u8> = (0..a as usize).map(|i| ((i * 131 + 7) & 255) as u8).collect();
                ref_b64_encode(&m)
            }
            "P" => ref_pct_encode(&[a as u8]),
            _ => ref_imf(a),
        };
        if mine != v {
            eprintln!("MACHINERY: reference disagrees with CPython on {} {}: {} vs {}", k, a, mine, v);
            std::process::exit(3);
        }
        n += 1;
    }
    Ok(n)
}

fn par<T: Sync, F: Fn(&T, &mut Stats) + Sync>(items: &[T], f: F) -> Stats {
    items
        .par_iter()
        .fold(Stats::default, |mut s, it| {
            f(it, &mut s);
            s
        })
        .reduce(Stats::default, |mut a, b| {
            a.merge(b);
            a
        })
}

fn guard<R>(s: &mut Stats, what: &str, input: impl Fn() -> serde_json::Value, f: impl FnOnce() -> R + std::panic::UnwindSafe) -> Option<R> {
    s.evaluations += 1;
    s.transitions += 1;
    match std::panic::catch_unwind(f) {
        Ok(r) => Some(r),
        Err(_) => {
            s.violation(format!("{}: panicked", what), || json!({"input": input()}));
            None
        }
    }
}

fn sha1(st: &mut Stats, quick: bool) {
    let mut lens: Vec<usize> = (0..=1100).collect();
    let mut k = 2048usize;
    while k <= if quick { 1 << 16 } else { 1 << 20 } {
        lens.extend([k - 1, k, k + 1]);
        k *= 2;
    }
    let part = par(&lens, |&n, s| {
        for content in 0..3 {
            let m: Vec<u8> = match content {
                0 => vec![0; n],
                1 => vec![0xff; n],
                _ => (0..n).map(|i| ((i * 131 + 7) & 255) as u8).collect(),
            };
            s.states += 1;
            s.nontrivial += 1;
            if let Some(got) = guard(s, "sha1", || json!({"len": n, "content": content}), || m.hash()) {
                if got != ref_sha1(&m) {
                    s.violation("sha1: wrong digest", || json!({"len": n, "content": content, "got": format!("{:02x?}", got)}));
                }
            }
        }
        s.outcome("sha1");
    });
    st.merge(part);
    st.sample(|| json!({"family": "sha1", "len": 55, "digest_of_zeros": ref_sha1(&[0; 55]).iter().map(|b| format!("{:02x}", b)).collect::<String>()}));
}

fn check_b64_decode(s: &mut Stats, text: &[u8], fam: &str) {
    let Ok(t) = std::str::from_utf8(text) else { return };
    s.states += 1;
    let want = ref_b64_decode(text);
    let Some(got) = guard(s, "base64 decode", || json!(t), || t.decode()) else { return };
    match (&want, &got) {
        (B64Verdict::Bytes(w), Ok(g)) if w == g => {
            s.nontrivial += 1;
            s.outcome("b64-decode-ok")
        }
        (B64Verdict::Malformed, Err(_)) => s.outcome("b64-decode-rejected"),
        (B64Verdict::NonCanonical(w), Ok(g)) if w == g => s.outcome("b64-noncanonical-accepted"),
        (B64Verdict::NonCanonical(_), Err(_)) => s.outcome("b64-noncanonical-rejected"),
        (B64Verdict::Malformed, Ok(g)) => {
            let class = if text.len() % 4 != 0 {
                "length not a multiple of 4"
            } else if text.contains(&b'=') {
                "misplaced padding"
            } else {
                "illegal symbol"
            };
            s.violation(format!("base64 decode: accepts malformed input ({})", class), || json!({"family": fam, "input": t, "got": g}))
        }
        (_, got) => {
            let class = if text.contains(&b'+') || text.contains(&b'/') { " (input contains + or /)" } else { "" };
            s.violation(format!("base64 decode: wrong result{}", class), || json!({"family": fam, "input": t, "expected": format!("{:?}", want), "got": format!("{:?}", got)}))
        }
    }
}

fn base64(st: &mut Stats, quick: bool) {
    // encode + round trip: every 1-, 2- and 3-byte input (2^24 groups)
    let firsts: Vec<u32> = (0..256).collect();
    let part = par(&firsts, |&a, s| {
        let a = a as u8;
        let mut inputs: Vec<Vec<u8>> = vec![vec![a]];
        for b in 0..=255u8 {
            inputs.push(vec![a, b]);
        }
        for inp in &inputs {
            b64_rt(s, inp);
        }
        for b in 0..=255u8 {
            for c in 0..=255u8 {
                b64_rt(s, &[a, b, c]);
            }
        }
    });
    st.merge(part);
    let mut s = Stats::default();
    b64_rt(&mut s, &[]);
    for n in 0..=64usize {
        let m: Vec<u8> = (0..n).map(|i| ((i * 151 + 11) & 255) as u8).collect();
        b64_rt(&mut s, &m);
        b64_rt(&mut s, &vec![0xff; n]);
    }
    st.merge(s);
    // decode: every 4-symbol group over the alphabet + '=' + one illegal symbol; thorough adds a second
    let mut alpha: Vec<u8> = B64.to_vec();
    alpha.push(b'=');
    alpha.push(b'-');
    if !quick {
        alpha.push(b' ');
    }
    let part = par(&alpha, |&a, s| {
        for &b in &alpha {
            for &c in &alpha {
                for &d in &alpha {
                    check_b64_decode(s, &[a, b, c, d], "all-4-symbol-groups");
                }
            }
        }
    });
    st.merge(part);
    // lengths that are not a multiple of 4, padding in a non-final group, data after padding
    let mut s = Stats::default();
    let sub: Vec<u8> = b"AQz9+/=-".to_vec();
    for n in [1usize, 2, 3, 5, 6, 7] {
        let ws = crate::props::c05::words(&sub.iter().map(|&b| b as char).collect::<Vec<_>>(), n.min(if quick { 5 } else { 6 }));
        for w in ws.iter().filter(|w| w.len() == n) {
            let t: Vec<u8> = w.iter().map(|&c| c as u8).collect();
            check_b64_decode(&mut s, &t, "odd-lengths");
        }
    }
    for g1 in ["QQ==", "QUI=", "QUJD", "====", "A===", "=QUJ", "Q=UJ", "+/+/", "++++", "////"] {
        for g2 in ["QQ==", "QUI=", "QUJD", "====", "A===", "+/+/", "/+/+"] {
            check_b64_decode(&mut s, format!("{}{}", g1, g2).as_bytes(), "two-groups");
        }
        check_b64_decode(&mut s, g1.as_bytes(), "one-group");
    }
    st.merge(s);
}

fn b64_rt(s: &mut Stats, inp: &[u8]) {
    s.states += 1;
    s.nontrivial += 1;
    let want = ref_b64_encode(inp);
    let Some(got) = guard(s, "base64 encode", || json!(inp), || inp.encode()) else { return };
    if got != want {
        s.violation("base64 encode: wrong text", || json!({"input": inp, "expected": want, "got": got}));
        return;
    }
    let Some(back) = guard(s, "base64 decode", || json!(got), || got.decode()) else { return };
    if back.as_deref() != Ok(inp) {
        let class = if got.contains('+') || got.contains('/') { " (text contains + or /)" } else { "" };
        s.violation(format!("base64: decode(encode(x)) != x{}", class), || json!({"input": inp, "text": got, "decoded": format!("{:?}", back)}));
    } else if s.evaluations % 4_000_000 < 2 {
        s.sample(|| json!({"family": "base64", "input": inp, "text": got}));
    }
}

fn percent(st: &mut Stats, quick: bool) {
    let firsts: Vec<u32> = (0..256).collect();
    let part = par(&firsts, |&a, s| {
        let a = a as u8;
        let mut inputs: Vec<Vec<u8>> = vec![vec![a]];
        for b in 0..=255u8 {
            inputs.push(vec![a, b]);
        }
        for inp in inputs {
            s.states += 1;
            s.nontrivial += 1;
            let want = ref_pct_encode(&inp);
            let Some(got) = guard(s, "percent encode", || json!(inp), || inp.percent_encode()) else { continue };
            if got != want {
                s.violation("percent encode: wrong text", || json!({"input": inp, "expected": want, "got": got}));
                continue;
            }
            let Some(back) = guard(s, "percent decode", || json!(got), || got.percent_decode()) else { continue };
            if back.as_deref() != Some(&inp[..]) {
                s.violation("percent: decode(encode(x)) != x", || json!({"input": inp, "text": got, "decoded": format!("{:?}", back)}));
            }
        }
    });
    st.merge(part);
    let alpha = ['%', '0', '9', 'a', 'F', 'g', '+', ' ', 'é'];
    let mut ws = crate::props::c05::words(&alpha, if quick { 5 } else { 6 });
    // every escape `%XY` with X, Y over all printable ASCII (every hex digit in either case, every non-digit),
    // alone, embedded, and as the second of two escapes
    for x in 0x20u8..0x7f {
        for y in 0x20u8..0x7f {
            let e = format!("%{}{}", x as char, y as char);
            ws.push(e.chars().collect());
            ws.push(format!("a{}b", e).chars().collect());
            ws.push(format!("%41{}", e).chars().collect());
        }
    }
    let part = par(&ws, |w, s| {
        let t: String = w.iter().collect();
        s.states += 1;
        let want = ref_pct_decode(t.as_bytes());
        if t.contains('%') {
            s.nontrivial += 1;
        }
        let Some(got) = guard(s, "percent decode", || json!(t), || t.percent_decode()) else { return };
        if got != want {
            let class = match (&want, &got) {
                (None, Some(_)) => {
                    if t.contains("%+") || t.contains("%0+") || t.contains("%9+") || t.contains("%a+") || t.contains("%F+") {
                        "accepts a sign character inside a %XX escape"
                    } else {
                        "accepts malformed escape"
                    }
                }
                (Some(_), None) => "rejects valid input",
                _ => "wrong bytes",
            };
            s.violation(format!("percent decode: {}", class), || json!({"input": t, "expected": format!("{:?}", want), "got": format!("{:?}", got)}));
        }
        s.outcome(if want.is_some() { "pct-valid" } else { "pct-malformed" });
        if s.evaluations % 20_000 == 5 {
            s.sample(|| json!({"family": "percent-decode", "input": t, "reference": format!("{:?}", want)}));
        }
    });
    st.merge(part);
}

fn dates(st: &mut Stats) {
    // every day 1970-01-01 .. 9999-12-31 at 00:00:00 and 23:59:59
    let last_day = 2932896i64; // 9999-12-31
    assert_eq!(civil(last_day), (9999, 12, 31));
    let chunks: Vec<i64> = (0..=last_day / 1000).collect();
    let part = par(&chunks, |&c, s| {
        for day in (c * 1000)..((c + 1) * 1000).min(last_day + 1) {
            for off in [0i64, 86399] {
                let ts = day * 86400 + off;
                date_one(s, ts);
            }
        }
    });
    st.merge(part);
    // every second of selected days
    let days: Vec<i64> = vec![0, 11016 /*2000-02-29*/, 11017, 47540 /*2100-02-28*/, 47541, last_day, 19782 /*2024-02-29*/];
    let part = par(&days, |&d, s| {
        for sec in 0..86400 {
            date_one(s, d * 86400 + sec);
        }
    });
    st.merge(part);
}

fn date_one(s: &mut Stats, ts: i64) {
    s.states += 1;
    s.nontrivial += 1;
    let Some(got) = guard(s, "date", || json!(ts), || DateTime::from(ts).to_string()) else { return };
    let want = ref_imf(ts);
    if got != want {
        s.violation("date: wrong IMF-fixdate", || json!({"timestamp": ts, "expected": want, "got": got}));
    }
    if ts % 40_000_000_000 == 86399 {
        s.sample(|| json!({"family": "date", "timestamp": ts, "text": got}));
    }
}

pub fn run(mut cx: Ctx) -> ! {
    cx.rule = "each primitive is run on its whole bounded domain (SHA-1: all lengths 0..1100 x 3 contents + 2^k-1,2^k,2^k+1; Base64: all 2^24+2^16+2^8 inputs of <=3 bytes encoded and decoded back, every 4-symbol group over alphabet+'='+illegal decoded, odd lengths, misplaced padding; percent: every byte and byte pair, all strings <=5 over 9 symbols; dates: every day 1970..9999 at 00:00:00 and 23:59:59 + every second of 7 days) and compared with an independent reference; states = distinct inputs, transitions = calls of the real primitive; non-trivial = all except inputs the reference rejects".into();
    // the whole domain costs two seconds: both tiers run it
    let quick = false;
    match crosscheck_with_cpython() {
        Ok(n) => {
            cx.extra.insert("reference_vs_cpython_cases".into(), json!(n));
        }
        Err(e) => cx.assume(&format!("CPython cross-check of the references could not run: {}", e)),
    }
    cx.assume("the reference implementations in checks/src/props/c18.rs (cross-checked against CPython hashlib/base64/urllib/email.utils at run time)");
    cx.assume("Base64 groups with non-zero trailing bits before padding may be accepted or rejected (RFC 4648 §3.5)");
    let mut st = Stats::default();
    sha1(&mut st, quick);
    base64(&mut st, quick);
    percent(&mut st, quick);
    dates(&mut st);
    cx.stats.merge(st);
    cx.finish()
}
