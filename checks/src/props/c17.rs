//! C17 — passwords and session tokens authenticate exactly their owner, only while valid.
//! Explicit-state breadth-first search over operation histories of the real AuthProvider (with the
//! crate's own Vec<User> database behind a snapshot-able handle), canonical-state deduplication, a
//! reference model compared after every step and a full set of probes in every state
//! (DESIGN.md §3 C17).

use crate::report::{Ctx, Stats};
use humphrey::http::{Request, Response, StatusCode};
use humphrey::stream::Stream;
use humphrey::verif::net::{ScriptSock, Step, TcpStream};
use humphrey::App;
use humphrey_auth::app::{AuthApp, AuthState};
use humphrey_auth::config::AuthConfig;
use humphrey_auth::database::AuthDatabase;
use humphrey_auth::error::AuthError;
use humphrey_auth::session::Session;
use humphrey_auth::user::User;
use humphrey_auth::AuthProvider;
use rayon::prelude::*;
use serde_json::json;
use std::collections::{BTreeSet, HashSet};
use std::sync::{Arc, Mutex, MutexGuard};

/// The crate's own `Vec<User>` database behind a shared handle, so that states can be
/// snapshotted and restored instead of being rebuilt (rebuilding means re-hashing passwords).
#[derive(Clone, Default)]
pub struct Db(pub Arc<Mutex<Vec<User>>>);

impl AuthDatabase for Db {
    fn get_user_by_uid(&self, uid: impl AsRef<str>) -> Option<User> {
        self.0.lock().unwrap().get_user_by_uid(uid)
    }
    fn get_user_by_token(&self, token: impl AsRef<str>) -> Option<User> {
        self.0.lock().unwrap().get_user_by_token(token)
    }
    fn get_session_by_token(&self, token: impl AsRef<str>) -> Option<Session> {
        self.0.lock().unwrap().get_session_by_token(token)
    }
    fn update_user(&mut self, user: User) -> Result<(), AuthError> {
        self.0.lock().unwrap().update_user(user)
    }
    fn add_user(&mut self, user: User) -> Result<(), AuthError> {
        self.0.lock().unwrap().add_user(user)
    }
    fn remove_user(&mut self, uid: impl AsRef<str>) -> Result<(), AuthError> {
        self.0.lock().unwrap().remove_user(uid)
    }
}

pub struct St {
    provider: Mutex<AuthProvider<Db>>,
}
impl AuthState<Db> for St {
    fn auth_provider(&self) -> MutexGuard<AuthProvider<Db>> {
        self.provider.lock().unwrap()
    }
}

#[derive(Clone, Copy, Debug, PartialEq, Eq, PartialOrd, Ord, Hash)]
pub enum Ev {
    CreateUser(usize),
    RemoveUser(usize),
    /// user index, lifetime class (0 = already expired, 1 = default via create_session, 2 = explicit 3600)
    CreateSession(usize, usize),
    Refresh(usize),
    Invalidate(usize),
    InvalidateUser(usize),
    RemoveUnknown,
    RefreshUnknown,
    SessionUnknownUser,
    /// the wall clock advances by one second (clock mode only)
    Tick,
}

/// Session lifetimes of one search. Without the clock every non-zero lifetime is an hour and time
/// stands still; with it the lifetimes are a few seconds of a virtual wall clock that `Tick` advances.
#[derive(Clone, Copy, Debug)]
pub struct Clk {
    pub ticking: bool,
    pub default: u64,
    pub explicit: u64,
    pub refresh: u64,
}
pub const NO_CLOCK: Clk = Clk { ticking: false, default: 3600, explicit: 3600, refresh: 3600 };
pub const T0: u64 = 1_700_000_000;

fn set_clock(clk: Clk, now: u64) {
    // the wall clock is virtual in every search (it only moves in the clock search), so that the real
    // expiry times are reproducible and can be part of the canonical state
    let _ = clk;
    humphrey::verif::time::set_virtual_clock(Some(T0 + now));
}

/// Reference model of one user slot (index = creation order)
#[derive(Clone, Debug, PartialEq, Eq, PartialOrd, Ord, Hash)]
pub struct MUser {
    pub exists: bool,
    pub pw: usize,
    /// (token index, seconds of validity left; 0 = expired)
    pub session: Option<(usize, u64)>,
}

#[derive(Clone)]
pub struct Node {
    pub model: Vec<MUser>,
    /// real data: database snapshot, uid per user index, token text per token index
    pub db: Vec<User>,
    pub uids: Vec<String>,
    pub tokens: Vec<String>,
    pub hashes: Vec<String>,
    pub history: Vec<Ev>,
    /// seconds the virtual clock has advanced
    pub now: u64,
}

pub const PWS: [&str; 2] = ["correct horse", "Tr0ub4dor&3"];

fn provider(db: &Db, pepper: bool, clk: Clk) -> AuthProvider<Db> {
    let mut cfg = AuthConfig::default();
    if clk.ticking {
        cfg = cfg.with_default_lifetime(clk.default).with_default_refresh_lifetime(clk.refresh);
    }
    if pepper {
        cfg = cfg.with_pepper(b"pepper-for-verif");
    }
    AuthProvider::new(db.clone()).with_config(cfg)
}

/// (model: exists, password, session) + (real: user present, session token index and seconds to its expiry)
type Canon = Vec<(bool, usize, Option<(usize, u64)>, bool, Option<(usize, i64)>)>;

/// The canonical state is read off the REAL database as well as the model: two histories are merged only
/// if every user's stored session has the same token and the same distance to its expiry. (Merging on the
/// model alone would hide a defect that stores a wrong expiry and only shows after further ticks.)
fn canon(n: &Node) -> Canon {
    n.model
        .iter()
        .enumerate()
        .map(|(u, mu)| {
            let real = n.db.iter().find(|x| x.uid == n.uids[u]);
            let rs = real.and_then(|x| x.session.as_ref()).map(|s| (n.tokens.iter().position(|t| *t == s.token).unwrap_or(usize::MAX), s.expiry as i64 - (T0 + n.now) as i64));
            (mu.exists, mu.pw, mu.session, real.is_some(), rs)
        })
        .collect()
}

fn enabled(n: &Node, max_users: usize, clk: Clk) -> Vec<Ev> {
    let mut v = vec![];
    if clk.ticking {
        v.push(Ev::Tick);
    }
    if n.model.len() < max_users {
        v.push(Ev::CreateUser(0));
        v.push(Ev::CreateUser(1));
    }
    for u in 0..n.model.len() {
        v.push(Ev::RemoveUser(u));
        for l in 0..3 {
            v.push(Ev::CreateSession(u, l));
        }
        v.push(Ev::InvalidateUser(u));
    }
    for t in 0..n.tokens.len() {
        v.push(Ev::Refresh(t));
        v.push(Ev::Invalidate(t));
    }
    v.push(Ev::RemoveUnknown);
    v.push(Ev::RefreshUnknown);
    v.push(Ev::SessionUnknownUser);
    v
}

fn owner_of(model: &[MUser], t: usize) -> Option<usize> {
    model.iter().position(|u| u.exists && u.session.map_or(false, |s| s.0 == t))
}

fn hex64(t: &str) -> bool {
    t.len() == 64 && t.bytes().all(|b| b.is_ascii_hexdigit())
}

/// applies one event to the real provider and to the model; returns the successor or a violation
fn step(n: &Node, ev: Ev, pepper: bool, clk: Clk, all_tokens: &Mutex<HashSet<String>>) -> Result<Node, (String, String)> {
    let db = Db(Arc::new(Mutex::new(n.db.clone())));
    let mut p = provider(&db, pepper, clk);
    set_clock(clk, n.now);
    let live = |s: Option<(usize, u64)>| s.map_or(false, |s| s.1 > 0);
    let mut m = n.clone();
    m.history.push(ev);
    let bad = |sig: &str, what: String| Err((sig.to_string(), what));
    match ev {
        Ev::Tick => {
            m.now += 1;
            for u in m.model.iter_mut() {
                if let Some(s) = u.session.as_mut() {
                    s.1 = s.1.saturating_sub(1);
                }
            }
        }
        Ev::CreateUser(pw) => match p.create_user(PWS[pw]) {
            Ok(uid) => {
                if n.uids.contains(&uid) {
                    return bad("create_user returned a uid that already exists", uid);
                }
                m.uids.push(uid.clone());
                m.model.push(MUser { exists: true, pw, session: None });
                let h = db.0.lock().unwrap().iter().find(|u| u.uid == uid).map(|u| u.password_hash.clone()).unwrap_or_default();
                m.hashes.push(h);
            }
            Err(e) => return bad("create_user failed", format!("{:?}", e)),
        },
        Ev::RemoveUser(u) => {
            let r = p.remove_user(&n.uids[u]);
            let want_ok = n.model[u].exists;
            if r.is_ok() != want_ok {
                return bad("remove_user result differs from the reference", format!("{:?}, user exists: {}", r, want_ok));
            }
            m.model[u].exists = false;
            m.model[u].session = None;
        }
        Ev::CreateSession(u, l) => {
            let r = match l {
                0 => p.create_session_with_lifetime(&n.uids[u], 0),
                1 => p.create_session(&n.uids[u]),
                _ => p.create_session_with_lifetime(&n.uids[u], clk.explicit),
            };
            let mu = &n.model[u];
            let want: Result<(), AuthError> = if !mu.exists {
                Err(AuthError::UserNotFound)
            } else if live(mu.session) {
                Err(AuthError::SessionAlreadyExists)
            } else {
                Ok(())
            };
            match (r, want) {
                (Ok(tok), Ok(())) => {
                    if !hex64(&tok) {
                        return bad("session token is not 256 bits of hex", tok);
                    }
                    if !all_tokens.lock().unwrap().insert(tok.clone()) {
                        return bad("a session token was issued twice", tok);
                    }
                    m.tokens.push(tok);
                    m.model[u].session = Some((m.tokens.len() - 1, [0, clk.default, clk.explicit][l]));
                }
                (Ok(_), Err(AuthError::SessionAlreadyExists)) => return bad("a second live session was created for a user", format!("user {}", u)),
                (Ok(_), Err(e)) => return bad("create_session succeeded where the reference refuses", format!("{:?}", e)),
                (Err(e), Ok(())) => return bad("create_session refused where the reference allows it", format!("{:?}", e)),
                (Err(e), Err(w)) => {
                    if e != w {
                        return bad("create_session failed with the wrong error", format!("{:?} vs {:?}", e, w));
                    }
                }
            }
        }
        Ev::Refresh(t) => {
            let r = p.refresh_session(&n.tokens[t]);
            let live_owner = owner_of(&n.model, t).filter(|&u| live(n.model[u].session));
            if let (true, Some(u)) = (r.is_ok(), live_owner) {
                m.model[u].session = Some((t, clk.refresh));
            }
            match (r.is_ok(), live_owner.is_some()) {
                (true, false) => {
                    let why = if owner_of(&n.model, t).is_some() { "an expired token was accepted by refresh_session" } else { "a token that belongs to nobody was accepted by refresh_session" };
                    return bad(why, format!("token #{}", t));
                }
                (false, true) => return bad("refresh_session rejected a live token", format!("{:?}", r)),
                _ => {}
            }
        }
        Ev::Invalidate(t) => {
            p.invalidate_session(&n.tokens[t]);
            if let Some(u) = owner_of(&n.model, t) {
                m.model[u].session = None;
            }
        }
        Ev::InvalidateUser(u) => {
            p.invalidate_user_session(&n.uids[u]);
            if n.model[u].exists {
                m.model[u].session = None;
            }
        }
        Ev::RemoveUnknown => {
            if p.remove_user("00000000-0000-4000-8000-000000000000").is_ok() {
                return bad("remove_user succeeded for an unknown uid", String::new());
            }
        }
        Ev::RefreshUnknown => {
            if p.refresh_session("f".repeat(64)).is_ok() {
                return bad("a token that belongs to nobody was accepted by refresh_session", "ffff…".into());
            }
        }
        Ev::SessionUnknownUser => {
            if p.create_session("no-such-user").is_ok() {
                return bad("create_session succeeded for an unknown uid", String::new());
            }
        }
    }
    m.db = db.0.lock().unwrap().clone();
    Ok(m)
}

/// all observations in a state; cheap ones always, password verification (Argon2) when `deep`
fn probes(n: &Node, pepper: bool, clk: Clk, deep: bool) -> Result<u64, (String, String)> {
    let db = Db(Arc::new(Mutex::new(n.db.clone())));
    let mut p = provider(&db, pepper, clk);
    set_clock(clk, n.now);
    let mut count = 0u64;
    let bad = |sig: &str, what: String| Err((sig.to_string(), what));
    for (u, mu) in n.model.iter().enumerate() {
        count += 1;
        if p.exists(&n.uids[u]) != mu.exists {
            return bad("exists() disagrees with the reference", format!("user {}", u));
        }
        // the stored hash decides every password check; it must never change after creation
        if mu.exists {
            let h = n.db.iter().find(|x| x.uid == n.uids[u]).map(|x| x.password_hash.clone());
            if h.as_deref() != Some(n.hashes[u].as_str()) {
                return bad("a user's stored password hash changed after creation", format!("user {}", u));
            }
        }
        if deep {
            for (pi, pw) in PWS.iter().enumerate() {
                count += 1;
                let want = mu.exists && mu.pw == pi;
                if p.verify(&n.uids[u], pw) != want {
                    return bad(if want { "the right password does not verify" } else { "a password verifies for a user it was not created with (or a removed user)" }, format!("user {} password #{}", u, pi));
                }
            }
            if p.verify(&n.uids[u], "wrong") || p.verify(&n.uids[u], "") {
                return bad("a wrong password verifies", format!("user {}", u));
            }
        }
    }
    if p.exists("no-such-user") || (deep && p.verify("no-such-user", PWS[0])) {
        return bad("an unknown uid exists or verifies", String::new());
    }
    for (t, tok) in n.tokens.iter().enumerate() {
        count += 1;
        let want = owner_of(&n.model, t).filter(|&u| n.model[u].session.unwrap().1 > 0);
        let got = p.get_uid_by_token(tok);
        match (got, want) {
            (Ok(uid), Some(u)) => {
                if uid != n.uids[u] {
                    return bad("a token authenticates a user other than the one it was issued to", format!("token #{} -> {}", t, uid));
                }
            }
            (Ok(uid), None) => {
                let why = if owner_of(&n.model, t).is_some() { "an expired token still authenticates" } else { "an invalidated token (or one of a removed user) still authenticates" };
                return bad(why, format!("token #{} -> {}", t, uid));
            }
            (Err(_), Some(u)) => return bad("a live token is rejected", format!("token #{} of user {}", t, u)),
            (Err(_), None) => {}
        }
    }
    // the database's own token lookups (public API; the provider builds on get_user_by_token): a token finds
    // exactly the user whose stored session carries it
    for (t, tok) in n.tokens.iter().enumerate() {
        count += 2;
        let holder = owner_of(&n.model, t).map(|u| n.uids[u].clone());
        let by_user = n.db.get_user_by_token(tok).map(|u| u.uid);
        if by_user != holder {
            return bad("database: get_user_by_token finds the wrong user (or one without that session)", format!("token #{} -> {:?}, holder {:?}", t, by_user, holder));
        }
        let by_sess = n.db.get_session_by_token(tok).map(|s| s.token);
        if by_sess.is_some() != holder.is_some() || by_sess.as_deref().map_or(false, |x| x != tok) {
            return bad("database: get_session_by_token returns a session that does not carry the token (or misses the one that does)", format!("token #{} -> {:?}", t, by_sess.map(|x| x.chars().take(8).collect::<String>())));
        }
    }
    if n.db.get_user_by_token("f".repeat(64)).is_some() || n.db.get_session_by_token("f".repeat(64)).is_some() {
        return bad("database: an unknown token finds a user or session", String::new());
    }
    if p.get_uid_by_token("f".repeat(64)).is_ok() || p.get_uid_by_token("").is_ok() {
        return bad("an unknown token authenticates", String::new());
    }
    // at most one live session per user: a user slot holds one session, but two tokens must never both map to it
    for u in 0..n.model.len() {
        let live: Vec<usize> = (0..n.tokens.len()).filter(|&t| p.get_uid_by_token(&n.tokens[t]).map_or(false, |x| x == n.uids[u])).collect();
        if live.len() > 1 {
            return bad("a user has more than one live session", format!("user {} tokens {:?}", u, live));
        }
    }
    // the authenticated route: only a live token's owner gets through
    drop(p);
    let st = St { provider: Mutex::new(provider(&db, pepper, clk)) };
    let app: App<St> = App::new_with_config(1, st).with_auth_route("/me", |_r: Request, _s: Arc<St>, uid: String| Response::new(StatusCode::OK, uid));
    let parts = app.verif_into_parts();
    let mut cookies: Vec<(Option<String>, Option<usize>)> = vec![(None, None), (Some("garbage".into()), None), (Some("f".repeat(64)), None)];
    for (t, tok) in n.tokens.iter().enumerate() {
        cookies.push((Some(tok.clone()), owner_of(&n.model, t).filter(|&u| n.model[u].session.unwrap().1 > 0)));
    }
    for (cookie, want) in cookies {
        count += 1;
        let mut req = "GET /me HTTP/1.1\r\nHost: x\r\nConnection: close\r\n".to_string();
        if let Some(c) = &cookie {
            req.push_str(&format!("Cookie: other=1; HumphreyToken={}\r\n", c));
        }
        req.push_str("\r\n");
        let sock = ScriptSock::new("127.0.0.1:9".parse().unwrap(), vec![Step::Seg(req.into_bytes()), Step::Eof]);
        parts.serve(Stream::Tcp(TcpStream::Script(sock.clone())));
        let out = sock.lock().unwrap().out.clone();
        let rs = crate::props::c01::read_responses(&out).map_err(|e| ("auth route wrote a malformed response".to_string(), e))?;
        let (status, body) = rs.first().map(|r| (r.status, r.body.clone())).unwrap_or((0, vec![]));
        match want {
            Some(u) => {
                if status != 200 || body != n.uids[u].as_bytes() {
                    return bad("the authenticated route rejects a live token or passes the wrong uid", format!("status {}", status));
                }
            }
            None => {
                if status != 401 {
                    return bad("the authenticated route lets a request through without a live token", format!("status {} cookie {:?}", status, cookie.map(|c| c.chars().take(12).collect::<String>())));
                }
            }
        }
    }
    Ok(count)
}

/// Session's own constructors on the virtual clock: documented lifetimes, token format, validity
fn session_api(st: &mut Stats) {
    for now in [0u64, 5, 3599] {
        set_clock(NO_CLOCK, now);
        let cases: Vec<(Session, u64, &str)> = vec![(Session::create(), 3600, "create()"), (Session::create_with_lifetime(7), 7, "create_with_lifetime(7)"), (Session::create_with_lifetime(0), 0, "create_with_lifetime(0)")];
        for (s, life, what) in cases {
            st.evaluations += 1;
            if s.expiry != T0 + now + life || !hex64(&s.token) || s.valid() != (life > 0) {
                st.violation("Session constructor: wrong expiry, token format or validity", || json!({"constructor": what, "expiry_minus_now": s.expiry as i64 - (T0 + now) as i64, "valid": s.valid()}));
            }
            if life > 0 {
                set_clock(NO_CLOCK, now + life - 1);
                let last_second = s.valid();
                set_clock(NO_CLOCK, now + life);
                if !last_second || s.valid() {
                    st.violation("Session::valid is not `now < expiry`", || json!({"constructor": what}));
                }
                let mut r = s.clone();
                r.refresh(9);
                if r.expiry != T0 + now + life + 9 || r.token != s.token {
                    st.violation("Session::refresh does not set the expiry to now + lifetime", || json!({"constructor": what}));
                }
                set_clock(NO_CLOCK, now);
            }
        }
    }
    humphrey::verif::time::set_virtual_clock(None);
}

fn bfs(st: &mut Stats, pepper: bool, clk: Clk, max_users: usize, depth: usize) {
    let all_tokens = Mutex::new(HashSet::new());
    let root = Node { model: vec![], db: vec![], uids: vec![], tokens: vec![], hashes: vec![], history: vec![], now: 0 };
    let mut seen: BTreeSet<(usize, Canon)> = BTreeSet::new();
    seen.insert((0, canon(&root)));
    let mut frontier = vec![root];
    st.states += 1;
    for d in 0..depth {
        // expand the whole level in parallel (Argon2 dominates)
        let jobs: Vec<(&Node, Ev)> = frontier.iter().flat_map(|n| enabled(n, max_users, clk).into_iter().map(move |ev| (n, ev))).collect();
        let tok_ref = &all_tokens;
        let results: Vec<(Ev, Result<Node, (String, String)>, Vec<Ev>)> = jobs.par_iter().map(|(n, ev)| {
                // a panic inside an AuthProvider / database operation is a verdict about the subject
                let r = std::panic::catch_unwind(std::panic::AssertUnwindSafe(|| step(n, *ev, pepper, clk, tok_ref))).unwrap_or_else(|_| Err(("an AuthProvider operation panicked".to_string(), format!("{:?}", ev))));
                (*ev, r, n.history.clone())
            })
            .collect();
        // every successor is probed, also when its canonical state has been seen before: merging is only
        // sound if the implementation agrees with the model there too (a path-dependent defect shows up as a
        // successor whose observations differ from those of its canonical state)
        let mut succ: Vec<(Node, bool)> = vec![];
        for (ev, r, hist) in results {
            st.transitions += 1;
            st.evaluations += 1;
            *st.counters.entry(format!("event:{}", format!("{:?}", ev).split('(').next().unwrap_or(""))).or_insert(0) += 1;
            match r {
                Err((sig, what)) => st.violation(sig, || json!({"what": what, "pepper": pepper, "clock": clk.ticking, "history": format!("{:?}", hist), "event": format!("{:?}", ev)})),
                Ok(n) => {
                    // tokens issued are part of the state identity only through the sessions that hold them,
                    // plus the number of dead tokens (they are probed too)
                    let key = (n.tokens.len().min(depth + 1), canon(&n));
                    let fresh = seen.insert(key);
                    succ.push((n, fresh));
                }
            }
        }
        st.states += succ.iter().filter(|x| x.1).count() as u64;
        // password checks (Argon2) in new states when the set of users changed in the last step, and at the last level
        let pr: Vec<(Result<u64, (String, String)>, Vec<Ev>)> = succ
            .par_iter()
            .map(|(n, fresh)| {
                let deep = *fresh && (matches!(n.history.last(), Some(Ev::CreateUser(_)) | Some(Ev::RemoveUser(_))) || n.history.len() == depth);
                let r = std::panic::catch_unwind(std::panic::AssertUnwindSafe(|| probes(n, pepper, clk, deep))).unwrap_or_else(|_| Err(("a lookup (exists / verify / get_uid_by_token / auth route) panicked".to_string(), String::new())));
                (r, n.history.clone())
            })
            .collect();
        for (r, hist) in pr {
            match r {
                Ok(c) => {
                    st.evaluations += c;
                    st.nontrivial += 1;
                }
                Err((sig, what)) => st.violation(sig, || json!({"what": what, "pepper": pepper, "clock": clk.ticking, "history": format!("{:?}", hist)})),
            }
        }
        let next: Vec<Node> = succ.into_iter().filter(|x| x.1).map(|x| x.0).collect();
        if d == 1 {
            if let Some(n) = next.last() {
                st.sample(|| json!({"history": format!("{:?}", n.history), "model": format!("{:?}", n.model)}));
            }
        }
        frontier = next;
        if frontier.is_empty() {
            break;
        }
    }
    humphrey::verif::time::set_virtual_clock(None);
    st.outcome(format!("bfs pepper={} clock={} users<={} depth={}", pepper, clk.ticking, max_users, depth));
}

/// Password matrix: one user per password of a menu chosen around the places where a hashing front end could lose
/// information (empty, case, surrounding spaces, NUL, composed vs. decomposed characters, long passwords that agree
/// on their first 31/32/63/64/71/72/127/128/255/256/1023 bytes); every password is verified against every user.
/// A password must verify for a user exactly when it is, byte for byte, the one the user was created with.
fn password_matrix(st: &mut Stats, quick: bool) {
    let mut menu: Vec<String> = ["", "a", "A", "b", "ab", " a", "a ", "a\0", "a\0b", "\u{e9}", "e\u{301}", "\u{1d11e}", "correct horse", "correct horse "].iter().map(|s| s.to_string()).collect();
    let stems: &[usize] = if quick { &[32, 64, 72, 128, 256] } else { &[31, 32, 33, 55, 56, 63, 64, 65, 71, 72, 73, 127, 128, 129, 255, 256, 257, 1023, 1024, 4096] };
    for &n in stems {
        let stem: String = (0..n).map(|i| (b'a' + (i % 26) as u8) as char).collect();
        menu.push(stem.clone());
        menu.push(format!("{}x", stem));
        menu.push(format!("{}y", stem));
    }
    for pepper in [false, true] {
        let db = Db(Arc::new(Mutex::new(vec![])));
        let users: Vec<Option<String>> = menu
            .iter()
            .map(|pw| {
                let mut p = provider(&db, pepper, NO_CLOCK);
                std::panic::catch_unwind(std::panic::AssertUnwindSafe(|| p.create_user(pw))).ok().and_then(|r| r.ok())
            })
            .collect();
        let part = (0..menu.len())
            .into_par_iter()
            .map(|u| {
                let mut s = Stats::default();
                let Some(uid) = &users[u] else {
                    s.violation("create_user fails or panics for a password", || json!({"password_len": menu[u].len(), "password_head": menu[u].chars().take(20).collect::<String>(), "pepper": pepper}));
                    return s;
                };
                s.states += 1;
                let p = provider(&db, pepper, NO_CLOCK);
                for (q, pw) in menu.iter().enumerate() {
                    s.evaluations += 1;
                    s.transitions += 1;
                    s.nontrivial += 1;
                    let _call = crate::report::enter(pw.as_bytes());
                    let got = std::panic::catch_unwind(std::panic::AssertUnwindSafe(|| p.verify(uid, pw)));
                    let want = menu[u] == *pw;
                    if got.as_ref().ok() != Some(&want) {
                        let class = match got {
                            Err(_) => "verify panics",
                            Ok(_) if want => "the right password does not verify",
                            Ok(_) => "a password verifies for a user created with a different password",
                        };
                        let common = menu[u].bytes().zip(pw.bytes()).take_while(|(a, b)| a == b).count();
                        s.violation(format!("password matrix: {}", class), || json!({"created_with_len": menu[u].len(), "created_with_head": menu[u].chars().take(12).collect::<String>(), "tried_len": pw.len(), "tried_head": pw.chars().take(12).collect::<String>(), "common_prefix_bytes": common, "pepper": pepper, "menu_index": [u, q]}));
                    }
                }
                s
            })
            .reduce(Stats::default, |mut a, b| {
                a.merge(b);
                a
            });
        st.merge(part);
    }
    st.outcome(format!("password matrix {0}x{0}", menu.len()));
}

pub fn run(mut cx: Ctx) -> ! {
    cx.rule = "breadth-first search over histories of {create_user(p1|p2), remove_user, create_session (already expired | default | explicit lifetime), refresh, invalidate_session, invalidate_user_session, the same on unknown uids/tokens, and (clock search) one-second ticks of a virtual wall clock against lifetimes of 2-3 s} on the real AuthProvider over the crate's own Vec<User> database (snapshot/restore), deduplicated on a canonical state read off the model AND the real database (per user: exists, password, model session with seconds left, stored session's token index and distance to its expiry; number of tokens issued); every step is compared with a reference model and every successor (new or merged) is probed: exists, stored hash unchanged (password verification with right/other/wrong passwords in new states whenever the user set changed and at the last level), get_uid_by_token for every token ever issued and unknown ones, and the with_auth_route handler with no cookie, garbage and every token; separately a password matrix (one user per password of a menu around the places where a hashing front end could lose information: empty, case, spaces, NUL, composed/decomposed characters, long passwords agreeing on their first 32..4096 bytes; every password verified against every user, with and without pepper); states = canonical states, transitions = operations applied; non-trivial = successors probed".into();
    let depth = cx.pick(6, 9);
    let users = cx.pick(3, 3);
    cx.bound("depth", depth);
    cx.bound("max_users", users);
    let mut st = Stats::default();
    session_api(&mut st);
    password_matrix(&mut st, cx.quick());
    bfs(&mut st, false, NO_CLOCK, users, depth);
    bfs(&mut st, true, NO_CLOCK, users.min(2), depth.min(5) - 1);
    // the same search on a virtual wall clock: sessions of 2 s (default), 3 s (explicit) and 2 s after a refresh,
    // one-second ticks; expiry is reached by time passing, refresh extends from the moment of the refresh
    let clk = Clk { ticking: true, default: 2, explicit: 3, refresh: 2 };
    let cdepth = cx.pick(7, 10);
    cx.bound("clock_search_depth", cdepth);
    bfs(&mut st, false, clk, 2, cdepth);
    cx.stats.merge(st);
    cx.assume("expiry is reached with lifetime 0 (expired at creation) and, in the clock search, by one-second ticks of a virtual wall clock (guarded UNIX_EPOCH facade in humphrey-auth) against lifetimes of 2-3 s; a session is live while now < expiry");
    cx.assume("that tokens are random cannot be decided by enumeration: format (64 hex digits) and non-repetition over the whole exploration are checked");
    cx.assume("password verification is a pure function of the stored hash, password and pepper; the hash is checked unchanged in every state and verification itself whenever the set of users changed and in all deepest states");
    cx.finish()
}
