//! C13 — JSON parser accepts exactly RFC 8259, serialiser emits it, round-trip (DESIGN.md §3 C13).

use crate::refs::json::{self as rj, Verdict, RV};
use crate::report::{Ctx, Stats};
use humphrey_json::Value;
use rayon::prelude::*;
use serde_json::json;

fn eq(v: &Value, r: &RV) -> bool {
    match (v, r) {
        (Value::Null, RV::Null) => true,
        (Value::Bool(a), RV::Bool(b)) => a == b,
        (Value::Number(a), RV::Num(b)) => a.to_bits() == b.to_bits() || (a == b && *a != 0.0),
        (Value::String(a), RV::Str(b)) => a == b,
        (Value::Array(a), RV::Arr(b)) => a.len() == b.len() && a.iter().zip(b).all(|(x, y)| eq(x, y)),
        (Value::Object(a), RV::Obj(b)) => {
            a.len() == b.len() && a.iter().zip(b).all(|((k1, x), (k2, y))| k1 == k2 && eq(x, y))
        }
        _ => false,
    }
}

fn to_rv(v: &Value) -> RV {
    match v {
        Value::Null => RV::Null,
        Value::Bool(b) => RV::Bool(*b),
        Value::Number(n) => RV::Num(*n),
        Value::String(s) => RV::Str(s.clone()),
        Value::Array(a) => RV::Arr(a.iter().map(to_rv).collect()),
        Value::Object(o) => RV::Obj(o.iter().map(|(k, v)| (k.clone(), to_rv(v))).collect()),
    }
}

/// Classifies an acceptance disagreement so that distinct defects have distinct signatures.
fn classify_overaccept(text: &str) -> String {
    let t = text.trim_matches(|c| c == ' ' || c == '\t' || c == '\n' || c == '\r');
    let lower = t.to_ascii_lowercase();
    let is_numberish = !t.is_empty()
        && t.chars().all(|c| c.is_ascii_alphanumeric() || c == '+' || c == '-' || c == '.')
        && t.parse::<f64>().is_ok();
    if is_numberish {
        if lower.contains("nan") || lower.contains("inf") {
            return "accepts non-JSON number literal: NaN/inf".into();
        }
        return "accepts non-JSON number literal (leading +, leading zero, bare or trailing dot)".into();
    }
    "accepts text that is not RFC 8259 JSON".into()
}

pub fn check_text(s: &mut Stats, fam: &str, text: &str, max_depth: usize) {
    s.evaluations += 1;
    s.states += 1;
    s.transitions += 1;
    let want = rj::parse(text, max_depth);
    let _call = crate::report::enter(text.as_bytes());
    let got = std::panic::catch_unwind(|| {
        if max_depth == 256 {
            Value::parse(text)
        } else {
            Value::parse_max_depth(text, max_depth)
        }
    });
    let got = match got {
        Ok(g) => g,
        Err(_) => {
            s.violation("parser panicked", || json!({"family": fam, "text": text}));
            return;
        }
    };
    match (&want, &got) {
        (Verdict::Accept(r), Ok(v)) => {
            s.nontrivial += 1;
            s.outcome("accept");
            if !eq(v, r) {
                s.violation("accepted text parsed to the wrong value", || {
                    json!({"family": fam, "text": text, "expected": format!("{:?}", r), "got": format!("{:?}", v)})
                });
            }
        }
        (Verdict::Accept(r), Err(e)) => {
            s.nontrivial += 1;
            s.violation("rejects valid RFC 8259 text", || {
                json!({"family": fam, "text": text, "expected": format!("{:?}", r), "got": format!("{:?}", e)})
            });
        }
        (Verdict::Reject, Ok(v)) => {
            s.violation(classify_overaccept(text), || {
                json!({"family": fam, "text": text, "expected": "reject", "got": format!("{:?}", v)})
            });
        }
        (Verdict::Reject, Err(_)) => s.outcome("reject"),
        (Verdict::Either, _) => s.outcome("either(lone surrogate)"),
    }
    if s.evaluations % 200_000 == 7 {
        s.sample(|| json!({"family": fam, "text": text, "reference": format!("{:?}", want).chars().take(80).collect::<String>()}));
    }
}

const TOKENS: [&str; 16] = ["{", "}", "[", "]", ":", ",", "\"", "\\", "0", "1", "-", "e", ".", " ", "true", "null"];

fn token_strings(st: &mut Stats, n: usize, subst: Option<(&str, &str)>, fam: &str) {
    // every concatenation of <= n tokens; parallel over the first two tokens
    let k = TOKENS.len();
    let toks: Vec<String> = TOKENS
        .iter()
        .map(|t| match subst {
            Some((from, to)) if *t == from => to.to_string(),
            _ => t.to_string(),
        })
        .collect();
    let mut local = Stats::default();
    check_text(&mut local, fam, "", 256);
    for a in 0..k {
        check_text(&mut local, fam, &toks[a], 256);
    }
    st.merge(local);
    if n < 2 {
        return;
    }
    let firsts: Vec<(usize, usize)> = (0..k).flat_map(|a| (0..k).map(move |b| (a, b))).collect();
    let part = firsts
        .par_iter()
        .map(|&(a, b)| {
            let mut s = Stats::default();
            let head = format!("{}{}", toks[a], toks[b]);
            check_text(&mut s, fam, &head, 256);
            // iterative odometer over the remaining n-2 positions, lengths 1..=n-2
            for extra in 1..=(n - 2) {
                let mut idx = vec![0usize; extra];
                loop {
                    let mut t = head.clone();
                    for &i in &idx {
                        t.push_str(&toks[i]);
                    }
                    check_text(&mut s, fam, &t, 256);
                    let mut p = extra;
                    loop {
                        if p == 0 {
                            break;
                        }
                        p -= 1;
                        idx[p] += 1;
                        if idx[p] < k {
                            break;
                        }
                        idx[p] = 0;
                        if p == 0 {
                            p = usize::MAX;
                            break;
                        }
                    }
                    if p == usize::MAX {
                        break;
                    }
                }
            }
            s
        })
        .reduce(Stats::default, |mut a, b| {
            a.merge(b);
            a
        });
    st.merge(part);
}

fn number_strings(st: &mut Stats, n: usize) {
    const A: [char; 8] = ['+', '-', '.', '0', '1', '9', 'e', 'E'];
    let words = crate::props::c05::words(&A, n.min(3));
    // parallel over prefixes of length <=3, extend sequentially
    let part = words
        .par_iter()
        .map(|w| {
            let mut s = Stats::default();
            let head: String = w.iter().collect();
            if w.len() < 3 || n <= 3 {
                check_text(&mut s, "number-like", &head, 256);
                return s;
            }
            for t in crate::props::c05::words(&A, n - 3) {
                let mut x = head.clone();
                x.extend(t.iter());
                check_text(&mut s, "number-like", &x, 256);
                // the same candidate in element position (literal terminated by `]`)
                if x.len() <= 5 {
                    check_text(&mut s, "number-like-in-array", &format!("[{}]", x), 256);
                }
            }
            s
        })
        .reduce(Stats::default, |mut a, b| {
            a.merge(b);
            a
        });
    st.merge(part);
}

fn escapes(st: &mut Stats) {
    let mut s = Stats::default();
    for c in 0u8..128 {
        check_text(&mut s, "escape", &format!("\"\\{}\"", c as char), 256);
        check_text(&mut s, "raw-char-in-string", &format!("\"{}\"", c as char), 256);
        check_text(&mut s, "raw-char-at-top", &format!("{}", c as char), 256);
        check_text(&mut s, "raw-char-after-value", &format!("1{}", c as char), 256);
        check_text(&mut s, "raw-char-between", &format!("[1{}2]", c as char), 256);
    }
    let units: [u32; 22] = [
        0, 1, 0x1f, 0x20, 0x22, 0x5c, 0x7f, 0x80, 0xff, 0x100, 0x7ff, 0x800, 0xd7ff, 0xd800, 0xdbff, 0xdc00, 0xdfff, 0xe000,
        0xfffd, 0xfffe, 0xffff, 0x1ab,
    ];
    for &u in &units {
        for upper in [false, true] {
            let h = if upper { format!("{:04X}", u) } else { format!("{:04x}", u) };
            check_text(&mut s, "u-escape", &format!("\"\\u{}\"", h), 256);
            check_text(&mut s, "u-escape-trunc", &format!("\"\\u{}\"", &h[..3]), 256);
            for &v in &units {
                check_text(&mut s, "u-escape-pair", &format!("\"\\u{}\\u{:04x}\"", h, v), 256);
            }
            check_text(&mut s, "u-escape-then-char", &format!("\"\\u{}x\"", h), 256);
        }
    }
    // sign / non-hex characters in each of the four hex positions
    for pos in 0..4 {
        for bad in ['+', '-', ' ', 'g', 'G', 'x', '"', '\\', 'é'] {
            let mut h: Vec<char> = "01ab".chars().collect();
            h[pos] = bad;
            let hs: String = h.iter().collect();
            check_text(&mut s, "u-escape-bad-hex", &format!("\"\\u{}\"", hs), 256);
            check_text(&mut s, "u-escape-bad-hex-low", &format!("\"\\ud83d\\u{}\"", hs), 256);
        }
    }
    for t in ["\"é\"", "\"漢\"", "\"𝄞\"", "\"\u{7f}\"", "\"\u{2028}\"", "{\"é\":\"𝄞\"}", "\"\\ud834\\udd1e\"", "\"\\uD834\\uDD1E\""] {
        check_text(&mut s, "non-ascii", t, 256);
    }
    st.merge(s);
}

fn nesting(st: &mut Stats) {
    let mut s = Stats::default();
    for d in [1usize, 2, 3, 255, 256, 257, 300, 1000] {
        for (o, c) in [("[", "]"), ("{\"a\":", "}")] {
            check_text(&mut s, "nesting", &format!("{}{}{}", o.repeat(d), if o == "[" { "" } else { "1" }, c.repeat(d)), 256);
            check_text(&mut s, "nesting-unclosed", &o.repeat(d), 256);
        }
        let mixed: String = (0..d).map(|i| if i % 2 == 0 { "[" } else { "{\"k\":" }).collect();
        let close: String = (0..d).rev().map(|i| if i % 2 == 0 { "]" } else { "}" }).collect();
        check_text(&mut s, "nesting-mixed", &format!("{}null{}", mixed, close), 256);
    }
    // many sibling containers at depth 2: the depth counter must go down again when a container closes
    for n in [2usize, 255, 256, 300] {
        for (open, item, close) in [("[", "[]", "]"), ("[", "{}", "]"), ("[", "{\"a\":[]}", "]")] {
            let body = vec![item; n].join(",");
            check_text(&mut s, "sibling-containers", &format!("{}{}{}", open, body, close), 256);
        }
        for item in ["{}", "[]", "[{}]"] {
            let body: Vec<String> = (0..n).map(|i| format!("\"k{}\":{}", i, item)).collect();
            check_text(&mut s, "sibling-containers", &format!("{{{}}}", body.join(",")), 256);
        }
    }
    for md in 1..4usize {
        for item in ["{}", "[]", "{\"a\":{}}"] {
            check_text(&mut s, "sibling-containers-small-limit", &format!("[{}]", vec![item; 5].join(",")), md);
            check_text(&mut s, "sibling-containers-small-limit", &format!("{{\"a\":{},\"b\":{},\"c\":{}}}", item, item, item), md);
        }
    }
    // small explicit depth limits, exhaustively over bracket strings of length <= 8
    for md in 0..4usize {
        for w in crate::props::c05::words(&['[', ']', ',', '1'], 7) {
            let t: String = w.iter().collect();
            check_text(&mut s, "small-depth-limit", &t, md);
        }
    }
    st.merge(s);
}

const SEEDS: [&str; 20] = [
    "null", "true", "false", "0", "-0", "1.5e+3", "\"\"", "\"a\\nb\"", "[]", "{}", "[1,2]", "[[],{}]", "{\"a\":1}",
    "{\"a\":1,\"b\":[true,null]}", "{\"a\":{\"b\":{\"c\":\"d\"}}}", "[\"\\u00e9\",\"\\ud834\\udd1e\"]", "[-1E-2,0.5]",
    "{\"\":\"\"}", "{\"a\":1,\"a\":2}", "[1,[2,[3,[4]]]]",
];

fn seeds_ws_and_mutants(st: &mut Stats) {
    let part = SEEDS
        .par_iter()
        .map(|seed| {
            let mut s = Stats::default();
            let cs: Vec<char> = seed.chars().collect();
            // whitespace (each of SP, TAB, LF, CR and a non-JSON space) inserted at every position
            for i in 0..=cs.len() {
                for ws in [' ', '\t', '\n', '\r', '\u{a0}', '\u{b}', '\u{c}'] {
                    let mut t = cs.clone();
                    t.insert(i, ws);
                    check_text(&mut s, "whitespace-insertion", &t.iter().collect::<String>(), 256);
                }
            }
            // single-edit mutants: delete, duplicate, replace by each alphabet symbol, insert each symbol
            let alpha: Vec<char> = "{}[]:,\"\\01-+e. tnfa/u".chars().collect();
            for i in 0..cs.len() {
                let mut t = cs.clone();
                t.remove(i);
                check_text(&mut s, "mutant-delete", &t.iter().collect::<String>(), 256);
                let mut t = cs.clone();
                t.insert(i, cs[i]);
                check_text(&mut s, "mutant-duplicate", &t.iter().collect::<String>(), 256);
                for &a in &alpha {
                    let mut t = cs.clone();
                    t[i] = a;
                    check_text(&mut s, "mutant-replace", &t.iter().collect::<String>(), 256);
                }
            }
            for i in 0..=cs.len() {
                for &a in &alpha {
                    let mut t = cs.clone();
                    t.insert(i, a);
                    check_text(&mut s, "mutant-insert", &t.iter().collect::<String>(), 256);
                }
            }
            // every pair of seeds glued with each separator (missing-comma family)
            for other in SEEDS.iter() {
                for sep in ["", " ", ",", ":", ", ", " ,", ",,"] {
                    check_text(&mut s, "two-values-in-array", &format!("[{}{}{}]", seed, sep, other), 256);
                    check_text(&mut s, "two-members", &format!("{{\"a\":{}{}\"b\":{}}}", seed, sep, other), 256);
                    check_text(&mut s, "two-values-top", &format!("{}{}{}", seed, sep, other), 256);
                }
            }
            s
        })
        .reduce(Stats::default, |mut a, b| {
            a.merge(b);
            a
        });
    st.merge(part);
}

// ---- serialiser / round trip ----

fn leaves() -> Vec<Value> {
    let mut v = vec![Value::Null, Value::Bool(true), Value::Bool(false)];
    for n in [0.0, -0.0, 1.0, -1.0, 1.5, 1e300, -1e-300, 5e-324, 9007199254740993.0, 1e21, 1e-7, 123456789.125, f64::MAX, f64::MIN_POSITIVE] {
        v.push(Value::Number(n));
    }
    for s in ["", "a", "\u{0}", "\u{1f}", "\"", "\\", "/", "\u{8}\u{c}\n\r\t", "é", "𝄞", "\u{7f}", "\u{2028}", "\u{fffe}", "a\"b\\c"] {
        v.push(Value::String(s.to_string()));
    }
    v
}

const KEYS: [&str; 5] = ["a", "", "é\"\\", "a", "\n"];

/// all values with exactly n nodes (container = 1 node + children)
fn values_of_size(n: usize, memo: &mut Vec<Vec<Value>>) -> Vec<Value> {
    if n < memo.len() {
        return memo[n].clone();
    }
    unreachable!()
}

fn build_values(maxn: usize) -> Vec<Vec<Value>> {
    let mut memo: Vec<Vec<Value>> = vec![vec![]];
    let mut one = leaves();
    one.push(Value::Array(vec![]));
    one.push(Value::Object(vec![]));
    memo.push(one);
    for n in 2..=maxn {
        let mut out = vec![];
        // children sequences: compositions of n-1
        let mut seqs: Vec<Vec<Value>> = vec![];
        fn comp(rem: usize, cur: &mut Vec<Value>, memo: &Vec<Vec<Value>>, seqs: &mut Vec<Vec<Value>>) {
            if rem == 0 {
                seqs.push(cur.clone());
                return;
            }
            for k in 1..=rem {
                for v in &memo[k] {
                    cur.push(v.clone());
                    comp(rem - k, cur, memo, seqs);
                    cur.pop();
                }
            }
        }
        comp(n - 1, &mut vec![], &memo, &mut seqs);
        for sq in seqs {
            out.push(Value::Object(sq.iter().enumerate().map(|(i, v)| (KEYS[i % KEYS.len()].to_string(), v.clone())).collect()));
            out.push(Value::Array(sq));
        }
        memo.push(out);
    }
    let _ = values_of_size;
    memo
}

/// structural equality, written out here (the round-trip clause says "an equal value": `==` on Value must mean this)
fn same_value(a: &Value, b: &Value) -> bool {
    match (a, b) {
        (Value::Null, Value::Null) => true,
        (Value::Bool(x), Value::Bool(y)) => x == y,
        (Value::Number(x), Value::Number(y)) => x == y,
        (Value::String(x), Value::String(y)) => x == y,
        (Value::Array(x), Value::Array(y)) => x.len() == y.len() && x.iter().zip(y).all(|(p, q)| same_value(p, q)),
        (Value::Object(x), Value::Object(y)) => x.len() == y.len() && x.iter().zip(y).all(|(p, q)| p.0 == q.0 && same_value(&p.1, &q.1)),
        _ => false,
    }
}

/// `==` on Value for every pair of values with <= 2 nodes
fn equality(st: &mut Stats) {
    let memo = build_values(2);
    let all: Vec<&Value> = memo.iter().flatten().collect();
    let mut s = Stats::default();
    for a in &all {
        for b in &all {
            s.evaluations += 1;
            s.states += 1;
            s.transitions += 1;
            if (*a == *b) != same_value(a, b) {
                s.violation("Value equality is not structural equality", || json!({"a": format!("{:?}", a), "b": format!("{:?}", b), "eq": *a == *b}));
            }
        }
    }
    s.outcome("equality");
    st.merge(s);
}

fn roundtrip(st: &mut Stats, maxn: usize) {
    let memo = build_values(maxn);
    let all: Vec<&Value> = memo.iter().flatten().collect();
    let part = all
        .par_iter()
        .map(|v| {
            let mut s = Stats::default();
            let r = to_rv(v);
            for indent in -1i32..=8 {
                s.evaluations += 1;
                s.states += 1;
                s.transitions += 2;
                s.nontrivial += 1;
                let res = std::panic::catch_unwind(|| {
                    let text = if indent < 0 { v.serialize() } else { v.serialize_pretty(indent as usize) };
                    let back = Value::parse(&text);
                    (text, back)
                });
                let (text, back) = match res {
                    Ok(x) => x,
                    Err(_) => {
                        s.violation("serialize/parse panicked", || json!({"value": format!("{:?}", v), "indent": indent}));
                        continue;
                    }
                };
                match rj::parse(&text, 256) {
                    Verdict::Accept(rv) => {
                        if rv != r && !rv_eq_num(&rv, &r) {
                            s.violation("serialised text denotes a different value", || json!({"value": format!("{:?}", v), "indent": indent, "text": text}));
                        }
                    }
                    _ => s.violation("serialiser emitted invalid RFC 8259 text", || json!({"value": format!("{:?}", v), "indent": indent, "text": text})),
                }
                match back {
                    Ok(b) if eq(&b, &r) && b == **v => s.outcome("roundtrip-ok"),
                    other => s.violation("parse(serialize(v)) != v", || json!({"value": format!("{:?}", v), "indent": indent, "text": text, "got": format!("{:?}", other)})),
                }
                if s.evaluations % 100_000 == 3 {
                    s.sample(|| json!({"family": "roundtrip", "indent": indent, "text": text}));
                }
            }
            s
        })
        .reduce(Stats::default, |mut a, b| {
            a.merge(b);
            a
        });
    st.count("roundtrip_values", all.len() as u64);
    st.merge(part);
}

fn rv_eq_num(a: &RV, b: &RV) -> bool {
    // -0.0 == 0.0 under PartialEq for f64 already; kept for clarity
    a == b
}

pub fn run(mut cx: Ctx) -> ! {
    cx.rule = "every string of the bounded families is given to the real Value::parse and to an RFC 8259 reference recogniser/evaluator; every Value of the bounded tree family is serialised (compact and pretty, indents 0..8), the text is checked by the reference and parsed back; states = distinct inputs, transitions = parser/serialiser calls; non-trivial = inputs the reference accepts (value comparison performed) plus all round-trip cases".into();
    let ntok = cx.pick(6, 7);
    let nnum = cx.pick(7, 8);
    let nval = cx.pick(4, 5);
    cx.bound("token_strings_max_tokens", ntok);
    cx.bound("number_like_max_len", nnum);
    cx.bound("value_tree_max_nodes", nval);
    cx.assume("std's f64::from_str is the trusted decimal->binary conversion for grammar-valid numbers");
    let mut st = Stats::default();
    token_strings(&mut st, ntok, None, "tokens");
    let sub_n = ntok - 1;
    for (from, to) in [("true", "false"), ("1", "a"), (" ", "\t"), (" ", "\n"), ("0", "9"), ("e", "E"), ("-", "+")] {
        token_strings(&mut st, sub_n, Some((from, to)), &format!("tokens[{}->{}]", from, to.escape_default()));
    }
    number_strings(&mut st, nnum);
    escapes(&mut st);
    nesting(&mut st);
    seeds_ws_and_mutants(&mut st);
    equality(&mut st);
    roundtrip(&mut st, nval);
    cx.stats.merge(st);
    cx.finish()
}
