//! C01 (generator, reference server, strict response reader and judge; shared by the threaded and
//! the tokio runner).

use crate::props::c02_gen::{Req, METHODS};
use crate::report::{show, Stats};
use serde_json::json;

#[derive(Clone, Debug, PartialEq)]
pub enum Shape {
    Good,
    BadStartLine(&'static str),
    BadHeader,
    BadLength,
    /// a header value with bytes that are not UTF-8
    BadUtf8Header,
    /// a request target with bytes that are not UTF-8
    BadUtf8Target,
}

#[derive(Clone, Debug)]
pub struct R {
    pub req: Req,
    pub shape: Shape,
}

impl R {
    pub fn bytes(&self) -> Vec<u8> {
        match &self.shape {
            Shape::Good => self.req.bytes(),
            Shape::BadStartLine(l) => format!("{}\r\nHost: x\r\n\r\n", l).into_bytes(),
            Shape::BadHeader => format!("{} {} {}\r\nHost x-no-colon\r\n\r\n", self.req.method, self.req.path, self.req.version).into_bytes(),
            Shape::BadLength => format!("{} {} {}\r\nContent-Length: abc\r\n\r\n", self.req.method, self.req.path, self.req.version).into_bytes(),
            Shape::BadUtf8Header => [format!("{} {} {}\r\nHost: x\r\nX-Name: caf", self.req.method, self.req.path, self.req.version).as_bytes(), &[0xe9, b' ', 0xff, 0xfe][..], b"\r\n\r\n"].concat(),
            Shape::BadUtf8Target => [format!("{} /r", self.req.method).as_bytes(), &[0xff, 0xc0][..], format!(" {}\r\nHost: x\r\n\r\n", self.req.version).as_bytes()].concat(),
        }
    }
    fn conn(&self) -> Option<String> {
        self.req.headers.iter().find(|h| h.0.eq_ignore_ascii_case("connection")).map(|h| h.2.clone())
    }
    pub fn keep_alive(&self) -> bool {
        self.shape == Shape::Good && self.conn().map_or(false, |c| c.eq_ignore_ascii_case("keep-alive"))
    }
    fn label(&self) -> String {
        match &self.shape {
            Shape::Good => format!("{} {} {} conn={:?} body={:?}", self.req.method, self.req.path, self.req.version, self.conn(), self.req.body.as_ref().map(|b| b.len())),
            s => format!("{:?}", s),
        }
    }
}

pub fn good(method: &'static str, path: &str, version: &'static str, conn: Option<&str>, body: Option<&[u8]>) -> R {
    let mut req = Req::new(method, path);
    req.version = version;
    req.headers.push(("Host".into(), " ".into(), "x.test".into()));
    if let Some(c) = conn {
        req.headers.push(("Connection".into(), " ".into(), c.into()));
    }
    req.body = body.map(|b| b.to_vec());
    R { req, shape: Shape::Good }
}

/// what the reference server does with one request
#[derive(Debug, Clone)]
pub struct Exp {
    /// None: no response at all (panicking handler)
    pub status: Option<u16>,
    pub version: Option<&'static str>,
    pub full_headers: bool,
    pub cors: bool,
    pub body: Option<Vec<u8>>,
    pub stays_open: bool,
    pub logged: Option<String>,
}

pub fn model(r: &R) -> Exp {
    if r.shape != Shape::Good {
        return Exp { status: Some(400), version: None, full_headers: false, cors: false, body: None, stays_open: false, logged: None };
    }
    let q = &r.req;
    let routed = ["/r", "/e", "/empty", "/c", "/p"].contains(&q.path.as_str());
    let ka = r.keep_alive();
    let logline = |route: &str| Some(format!("{} {} {}?{} {} body={:?}", route, q.method, q.path, q.query.clone().unwrap_or_default(), q.version, q.body.as_ref().map(|b| show(b))));
    if q.method == "OPTIONS" {
        return if routed {
            Exp { status: Some(204), version: Some(q.version), full_headers: true, cors: q.path == "/c", body: Some(vec![]), stays_open: ka, logged: None }
        } else {
            Exp { status: Some(404), version: Some(q.version), full_headers: true, cors: false, body: None, stays_open: ka, logged: None }
        };
    }
    match q.path.as_str() {
        "/r" => Exp { status: Some(200), version: Some(q.version), full_headers: true, cors: false, body: Some(b"routed".to_vec()), stays_open: ka, logged: logline("r") },
        "/e" => Exp { status: Some(201), version: Some(q.version), full_headers: true, cors: false, body: Some(q.body.clone().unwrap_or_default()), stays_open: ka, logged: logline("e") },
        "/empty" => Exp { status: Some(200), version: Some(q.version), full_headers: true, cors: false, body: Some(vec![]), stays_open: ka, logged: logline("empty") },
        "/c" => Exp { status: Some(200), version: Some(q.version), full_headers: true, cors: true, body: Some(b"cors".to_vec()), stays_open: ka, logged: logline("c") },
        "/p" => Exp { status: None, version: None, full_headers: false, cors: false, body: None, stays_open: false, logged: logline("p") },
        _ => Exp { status: Some(404), version: Some(q.version), full_headers: true, cors: false, body: None, stays_open: ka, logged: None },
    }
}

#[derive(Debug, Clone)]
pub struct Got {
    pub version: String,
    pub status: u16,
    pub headers: Vec<(String, String)>,
    pub body: Vec<u8>,
    /// the response had neither Content-Length nor an implicitly empty body: delimited by close
    pub close_delimited: bool,
    /// Humphrey's extra CRLF after a non-empty body was present (recorded finding)
    pub stray_crlf: bool,
}

/// Strict reader of the byte stream the server produced on one connection.
pub fn read_responses(mut b: &[u8]) -> Result<Vec<Got>, String> {
    let mut out = vec![];
    while !b.is_empty() {
        if !b.starts_with(b"HTTP/1.") {
            return Err(format!("bytes that do not start a response: {}", show(&b[..b.len().min(40)])));
        }
        let p = b.windows(4).position(|w| w == b"\r\n\r\n").ok_or_else(|| format!("unterminated response head: {}", show(&b[..b.len().min(60)])))?;
        let head = std::str::from_utf8(&b[..p]).map_err(|_| "response head is not UTF-8".to_string())?;
        let mut lines = head.split("\r\n");
        let sl = lines.next().unwrap_or("");
        let mut it = sl.splitn(3, ' ');
        let (v, c, _reason) = (it.next().unwrap_or(""), it.next().unwrap_or(""), it.next().ok_or("status line without reason phrase")?);
        if v != "HTTP/1.1" && v != "HTTP/1.0" {
            return Err(format!("bad version in status line {:?}", sl));
        }
        let status: u16 = c.parse().map_err(|_| format!("bad status code in {:?}", sl))?;
        let mut headers = vec![];
        for l in lines {
            let (n, val) = l.split_once(':').ok_or(format!("header line without colon {:?}", l))?;
            headers.push((n.to_ascii_lowercase(), val.trim().to_string()));
        }
        let rest = &b[p + 4..];
        let cl = headers.iter().find(|h| h.0 == "content-length").map(|h| h.1.parse::<usize>());
        let (body, after, close_delimited) = match cl {
            Some(Ok(n)) => {
                if rest.len() < n {
                    return Err(format!("body shorter than Content-Length ({} of {})", rest.len(), n));
                }
                (rest[..n].to_vec(), &rest[n..], false)
            }
            Some(Err(_)) => return Err("unparsable Content-Length".into()),
            None => {
                if status == 204 || status == 304 || status / 100 == 1 {
                    (vec![], rest, false)
                } else {
                    (rest.to_vec(), &rest[rest.len()..], true)
                }
            }
        };
        let mut stray = false;
        let mut after = after;
        if !body.is_empty() && !close_delimited && after.starts_with(b"\r\n") && (after.len() == 2 || after[2..].starts_with(b"HTTP/1.")) {
            stray = true;
            after = &after[2..];
        }
        out.push(Got { version: v.to_string(), status, headers, body, close_delimited, stray_crlf: stray });
        b = after;
    }
    Ok(out)
}

fn imf_fixdate_ok(v: &str) -> bool {
    // "Sun, 06 Nov 1994 08:49:37 GMT"
    let b = v.as_bytes();
    v.len() == 29
        && ["Mon", "Tue", "Wed", "Thu", "Fri", "Sat", "Sun"].contains(&&v[..3])
        && &v[3..5] == ", "
        && b[5..7].iter().all(|c| c.is_ascii_digit())
        && b[7] == b' '
        && ["Jan", "Feb", "Mar", "Apr", "May", "Jun", "Jul", "Aug", "Sep", "Oct", "Nov", "Dec"].contains(&&v[8..11])
        && b[11] == b' '
        && b[12..16].iter().all(|c| c.is_ascii_digit())
        && b[16] == b' '
        && b[19] == b':'
        && b[22] == b':'
        && v.ends_with(" GMT")
}

#[derive(Clone, Debug)]
pub struct Plan {
    /// cut positions in the concatenated byte stream
    pub cuts: Vec<usize>,
    /// with a connection timeout configured: the client goes silent before request index k (k = n: after the last)
    pub timeout_before: Option<usize>,
    pub timeout_configured: bool,
    /// with a connection timeout configured: the client pauses for longer than the timeout at this byte
    /// offset, which lies strictly inside a request (the request must still be served normally)
    pub pause_at: Option<usize>,
}

pub struct Outcome {
    pub out: Vec<u8>,
    pub log: Vec<String>,
    pub panicked: bool,
    pub shutdown_or_dropped: bool,
}

/// index k of the first request whose last byte shares a segment with the first byte of request k+1
/// (Humphrey reads ahead into a per-request buffer and discards it: recorded finding)
fn first_coalesced(seq: &[R], plan: &Plan, n_sent: usize) -> Option<usize> {
    let mut off = 0;
    for (k, r) in seq.iter().enumerate().take(n_sent.saturating_sub(1)) {
        off += r.bytes().len();
        if !plan.cuts.contains(&off) {
            return Some(k);
        }
    }
    None
}

pub const READ_AHEAD_SIG: &str = "requests coalesced in one segment: bytes read ahead past the end of a request are discarded";

pub fn check_case(s: &mut Stats, seq: &[R], plan: &Plan, serve: &(dyn Fn(&[R], &Plan) -> Outcome + Sync), rt: &str) {
    s.evaluations += 1;
    s.transitions += seq.len() as u64;
    let o = serve(seq, plan);
    let ctx = |what: String| {
        json!({"runtime": rt, "what": what, "requests": seq.iter().map(|r| r.label()).collect::<Vec<_>>(), "cuts": if plan.cuts.len() > 12 { json!(format!("{} cuts", plan.cuts.len())) } else { json!(plan.cuts) },
               "timeout_configured": plan.timeout_configured, "client_silent_before_request": plan.timeout_before, "client_pauses_inside_request_at_byte": plan.pause_at, "server_wrote": show(&o.out[..o.out.len().min(400)]), "handler_log": o.log})
    };
    // reference: walk the requests the server gets to see
    let n_sent = plan.timeout_before.unwrap_or(seq.len());
    let mut exps: Vec<Exp> = vec![];
    let mut open = true;
    let mut panic_expected = false;
    for r in &seq[..n_sent] {
        if !open {
            break;
        }
        let e = model(r);
        open = e.stays_open;
        if e.status.is_none() {
            panic_expected = true;
        }
        exps.push(e);
    }
    if open && plan.timeout_before.is_some() && plan.timeout_configured {
        // idle past the timeout at a request boundary: 408, then close
        exps.push(Exp { status: Some(408), version: None, full_headers: false, cors: false, body: None, stays_open: false, logged: None });
    }
    // Discrepancies that first show *after* a coalesced request boundary are the recorded read-ahead
    // finding; everything up to and including the request before that boundary is held to the full oracle.
    let co = first_coalesced(seq, plan, n_sent);
    let sig = |at: usize, normal: String| -> String {
        match co {
            Some(k) if at > k => READ_AHEAD_SIG.to_string(),
            _ => normal,
        }
    };
    let want_resp: Vec<(usize, &Exp)> = exps.iter().enumerate().filter(|(_, e)| e.status.is_some()).collect();
    if o.panicked != panic_expected {
        let at = exps.iter().position(|e| e.status.is_none()).unwrap_or(exps.len());
        s.violation(sig(at, format!("connection handler {}", if o.panicked { "panicked unexpectedly" } else { "did not propagate the handler panic" })), || ctx("panic".into()));
        return;
    }
    let got = match read_responses(&o.out) {
        Ok(g) => g,
        Err(e) => {
            s.violation(sig(co.map_or(0, |k| k + 1), "server output is not a sequence of well-framed responses".into()), || ctx(e.clone()));
            return;
        }
    };
    if got.iter().any(|g| g.stray_crlf) {
        s.violation("extra CRLF after a non-empty response body", || ctx("the response is followed by \\r\\n that belongs to no message".into()));
    }
    for (i, g) in got.iter().enumerate() {
        let Some((ri, e)) = want_resp.get(i) else {
            s.violation(sig(exps.len(), "more responses than requests".into()), || ctx(format!("{} responses, expected {}", got.len(), want_resp.len())));
            return;
        };
        let ri = *ri;
        let last = i + 1 == got.len();
        if Some(g.status) != e.status {
            s.violation(sig(ri, format!("wrong status ({} for a request the reference answers {})", g.status, e.status.unwrap())), || ctx(format!("response {}", i)));
            return;
        }
        if let Some(v) = e.version {
            if g.version != v {
                s.violation(sig(ri, "response does not carry the request's HTTP version".into()), || ctx(format!("response {}: {} for a {} request", i, g.version, v)));
                return;
            }
        }
        let h = |n: &str| g.headers.iter().find(|x| x.0 == n).map(|x| x.1.clone());
        if e.full_headers {
            match h("date") {
                Some(d) if imf_fixdate_ok(&d) => {}
                other => {
                    s.violation(sig(ri, "response without a valid Date header".into()), || ctx(format!("response {}: Date {:?}", i, other)));
                    return;
                }
            }
            if h("server").is_none() {
                s.violation(sig(ri, "response without a Server header".into()), || ctx(format!("response {}", i)));
                return;
            }
        }
        if e.cors {
            let ok = h("access-control-allow-origin").as_deref() == Some("https://a.test")
                && h("access-control-allow-methods").as_deref() == Some("GET")
                && h("access-control-allow-headers").map(|v| v.to_ascii_lowercase()).as_deref() == Some("x-t");
            if !ok {
                s.violation(sig(ri, "response lacks the matched route's CORS headers".into()), || ctx(format!("response {}: {:?}", i, g.headers)));
                return;
            }
        } else if e.full_headers && h("access-control-allow-origin").is_some() {
            s.violation(sig(ri, "CORS headers of another route on a response".into()), || ctx(format!("response {}", i)));
            return;
        }
        if let Some(b) = &e.body {
            if &g.body != b {
                s.violation(sig(ri, "response body differs from what the handler produced".into()), || ctx(format!("response {}: {} expected {}", i, show(&g.body), show(b))));
                return;
            }
        }
        if g.close_delimited && (e.stays_open || !last) {
            s.violation(sig(ri, "a response after which the connection stays open is not self-delimiting".into()), || ctx(format!("response {} has no Content-Length", i)));
            return;
        }
    }
    if got.len() < want_resp.len() {
        let ri = want_resp[got.len()].0;
        s.violation(sig(ri, "a request was not answered".into()), || ctx(format!("{} responses, expected {}", got.len(), want_resp.len())));
        return;
    }
    // handler log = requests that reach a handler, nothing dropped, nothing invented
    let want_log: Vec<String> = exps.iter().filter_map(|e| e.logged.clone()).collect();
    if o.log != want_log {
        let common = o.log.iter().zip(&want_log).take_while(|(a, b)| a == b).count();
        // index of the request the first differing log line belongs to
        let at = exps.iter().enumerate().filter(|(_, e)| e.logged.is_some()).nth(common).map_or(exps.len(), |(i, _)| i);
        s.violation(sig(at, "handlers saw different requests than the client sent".into()), || ctx(format!("expected {:?}", want_log)));
        return;
    }
    // the connection is closed exactly when the reference says so: after the script the client sends EOF, so
    // "open" shows as the server still reading (it consumed the EOF and returned) — in both cases the handler
    // returns; what must not happen is a response after the connection should have closed, checked above.
    s.outcome(format!("{} responses{}", got.len(), if plan.timeout_before.is_some() && plan.timeout_configured { " + timeout" } else { "" }));
}

pub fn singles() -> Vec<R> {
    let mut v = vec![];
    let targets = ["/r", "/nope", "/c", "/e", "/empty", "/p"];
    let conns: [Option<&str>; 6] = [Some("keep-alive"), Some("Keep-Alive"), Some("KEEP-ALIVE"), Some("close"), None, Some("keep-alive, Upgrade")];
    for m in METHODS {
        for t in targets {
            for c in conns {
                for ver in ["HTTP/1.1", "HTTP/1.0"] {
                    v.push(good(m, t, ver, c, None));
                }
            }
        }
    }
    for m in ["POST", "PUT"] {
        for body in [&b""[..], b"x", b"hello"] {
            for c in [Some("keep-alive"), Some("close")] {
                v.push(good(m, "/e", "HTTP/1.1", c, Some(body)));
                v.push(good(m, "/r", "HTTP/1.0", c, Some(body)));
            }
        }
    }
    let mut q = good("GET", "/r", "HTTP/1.1", Some("keep-alive"), None);
    q.req.query = Some("a=1&b".into());
    v.push(q);
    v.extend(malformed());
    v
}

pub fn malformed() -> Vec<R> {
    let base = good("GET", "/r", "HTTP/1.1", Some("keep-alive"), None);
    let mut v = vec![];
    for l in ["BREW /r HTTP/1.1", "get /r HTTP/1.1", "GET /r", "GET", "/r HTTP/1.1", "GET  /r HTTP/1.1"] {
        v.push(R { req: base.req.clone(), shape: Shape::BadStartLine(l) });
    }
    v.push(R { req: base.req.clone(), shape: Shape::BadHeader });
    v.push(R { req: base.req.clone(), shape: Shape::BadLength });
    v.push(R { req: base.req.clone(), shape: Shape::BadUtf8Header });
    v.push(R { req: base.req.clone(), shape: Shape::BadUtf8Target });
    v
}

/// keep-alive requests that may be followed by another one
pub fn firsts() -> Vec<R> {
    let mut v = vec![];
    for m in METHODS {
        for t in ["/r", "/nope", "/c", "/e", "/empty"] {
            v.push(good(m, t, "HTTP/1.1", Some("keep-alive"), None));
        }
    }
    v.push(good("GET", "/r", "HTTP/1.0", Some("Keep-Alive"), None));
    v.push(good("POST", "/e", "HTTP/1.1", Some("KEEP-ALIVE"), Some(b"hello")));
    v.push(good("PUT", "/e", "HTTP/1.1", Some("keep-alive"), Some(b"")));
    v.push(good("POST", "/e", "HTTP/1.0", Some("keep-alive"), Some(b"x")));
    v
}

pub fn seconds() -> Vec<R> {
    let mut v = firsts();
    v.push(good("GET", "/r", "HTTP/1.1", Some("close"), None));
    v.push(good("GET", "/r", "HTTP/1.1", None, None));
    v.push(good("OPTIONS", "/c", "HTTP/1.0", Some("close"), None));
    v.push(good("DELETE", "/p", "HTTP/1.1", Some("keep-alive"), None));
    v.push(good("POST", "/e", "HTTP/1.1", Some("close"), Some(b"tail!")));
    v.extend(malformed().into_iter().take(3));
    v.push(R { req: good("GET", "/r", "HTTP/1.1", None, None).req, shape: Shape::BadLength });
    v
}

/// [keep-alive request, X, probe]: what request X leaves behind (keep-alive flag, buffers, CORS state)
/// must not leak into how the connection goes on: after a malformed or `close` X the probe is never answered
pub fn stale_state_triples() -> Vec<Vec<R>> {
    let probe = good("GET", "/r", "HTTP/1.1", Some("keep-alive"), None);
    let mut mids = seconds();
    mids.extend(malformed());
    let mut v = vec![];
    for a in [good("GET", "/r", "HTTP/1.1", Some("keep-alive"), None), good("POST", "/e", "HTTP/1.1", Some("keep-alive"), Some(b"hello")), good("OPTIONS", "/c", "HTTP/1.1", Some("keep-alive"), None)] {
        for x in &mids {
            v.push(vec![a.clone(), x.clone(), probe.clone()]);
        }
    }
    v
}

pub fn plans_for(seq: &[R], pairs: bool, full_single_cuts: bool, timeouts: bool) -> Vec<Plan> {
    let mut total = 0;
    let mut bounds = vec![];
    for r in seq {
        total += r.bytes().len();
        bounds.push(total);
    }
    let mut v = vec![];
    let mk = |cuts: Vec<usize>| Plan { cuts, timeout_before: None, timeout_configured: false, pause_at: None };
    v.push(mk(vec![]));
    if seq.len() > 1 {
        v.push(mk(bounds[..bounds.len() - 1].to_vec()));
    }
    v.push(mk((1..total).collect()));
    let inner: Vec<usize> = if full_single_cuts {
        (1..total).collect()
    } else {
        // around every structural boundary
        let mut f = vec![];
        let mut off = 0;
        for r in seq {
            for b in r.req.boundaries() {
                f.push(off + b);
            }
            off += r.bytes().len();
            f.extend([off.saturating_sub(1), off, off + 1]);
        }
        f.retain(|&c| c >= 1 && c < total);
        f.sort();
        f.dedup();
        f
    };
    for &c in &inner {
        // a single cut elsewhere than a request boundary still delivers later requests coalesced; add the
        // boundaries so that only the cut under test varies
        let mut cuts = bounds[..bounds.len() - 1].to_vec();
        cuts.push(c);
        cuts.sort();
        cuts.dedup();
        v.push(mk(cuts));
    }
    if pairs {
        for i in 0..inner.len() {
            for j in i + 1..inner.len() {
                let mut cuts = bounds[..bounds.len() - 1].to_vec();
                cuts.extend([inner[i], inner[j]]);
                cuts.sort();
                cuts.dedup();
                v.push(mk(cuts));
            }
        }
    }
    if !timeouts {
        return v;
    }
    // connection timeout configured: no silence; silence before request k
    let per_req: Vec<usize> = bounds[..bounds.len() - 1].to_vec();
    v.push(Plan { cuts: per_req.clone(), timeout_before: None, timeout_configured: true, pause_at: None });
    v.push(Plan { cuts: (1..total).collect(), timeout_before: None, timeout_configured: true, pause_at: None });
    for k in 0..=seq.len() {
        v.push(Plan { cuts: per_req.clone(), timeout_before: Some(k), timeout_configured: true, pause_at: None });
    }
    // a pause longer than the timeout strictly inside a request: after its first byte, inside the start line,
    // at every line end of the head, between head and body, inside the body
    let mut starts = vec![0usize];
    starts.extend(bounds[..bounds.len() - 1].iter().copied());
    for &c in &inner {
        if bounds.contains(&c) || starts.contains(&c) {
            continue;
        }
        let mut cuts = per_req.clone();
        cuts.push(c);
        cuts.sort();
        cuts.dedup();
        v.push(Plan { cuts, timeout_before: None, timeout_configured: true, pause_at: Some(c) });
    }
    v
}

pub fn run_seqs(st: &mut Stats, name: &str, seqs: Vec<Vec<R>>, pairs: bool, full: bool, timeouts: bool, serve: &(dyn Fn(&[R], &Plan) -> Outcome + Sync), rt: &str) {
    use rayon::prelude::*;
    st.count(&format!("sequences[{}]", name), seqs.len() as u64);
    let part = seqs
        .par_iter()
        .fold(Stats::default, |mut s, seq| {
            s.states += 1;
            if seq.len() > 1 {
                s.nontrivial += 1;
            }
            for plan in plans_for(seq, pairs, full, timeouts) {
                check_case(&mut s, seq, &plan, serve, rt);
            }
            if s.states % 97 == 1 {
                s.sample(|| json!({"family": name, "requests": seq.iter().map(|r| r.label()).collect::<Vec<_>>()}));
            }
            s
        })
        .reduce(Stats::default, |mut a, b| {
            a.merge(b);
            a
        });
    st.merge(part);
}

