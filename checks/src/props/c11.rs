//! C11 — WebSocket endpoint: handshake, well-formed frames out, ping/close answered, blocking and
//! non-blocking receive agree. Bounded-exhaustive client frame scripts x delivery plans over a
//! scripted socket, against a reference endpoint model (DESIGN.md §3 C11).

use crate::props::c10::{pattern, ref_encode};
use crate::props::c18::{ref_b64_encode, ref_sha1};
use crate::report::{show, Ctx, Stats};
use humphrey::http::Request;
use humphrey::stream::Stream;
use humphrey::verif::net::{ScriptSock, Step, TcpStream};
use humphrey_ws::error::WebsocketError;
use humphrey_ws::restion::Restion;
use humphrey_ws::{websocket_handler, WebsocketStream};
use rayon::prelude::*;
use serde_json::json;
use std::net::SocketAddr;
use std::sync::{Arc, Mutex};

#[derive(Clone, Copy, Debug, PartialEq, Eq)]
pub enum Sym {
    Text(bool),
    Bin(bool),
    Cont(bool),
    Ping(u8),
    Pong,
    Close(u8),
}

const ALPHA: [Sym; 12] = [
    Sym::Text(true),
    Sym::Text(false),
    Sym::Bin(true),
    Sym::Bin(false),
    Sym::Cont(true),
    Sym::Cont(false),
    Sym::Ping(0),
    Sym::Ping(1),
    Sym::Ping(2),
    Sym::Pong,
    Sym::Close(0),
    Sym::Close(1),
];

/// all sequences of length 1..=n that respect the RFC 6455 fragmentation rules; Close only last
pub fn sequences(n: usize) -> Vec<Vec<Sym>> {
    let mut out = vec![];
    fn rec(cur: &mut Vec<Sym>, in_frag: bool, n: usize, out: &mut Vec<Vec<Sym>>) {
        if !cur.is_empty() {
            out.push(cur.clone());
        }
        if cur.len() == n || matches!(cur.last(), Some(Sym::Close(_))) {
            return;
        }
        for &s in &ALPHA {
            let next = match s {
                Sym::Text(f) | Sym::Bin(f) => {
                    if in_frag {
                        continue;
                    }
                    !f
                }
                Sym::Cont(f) => {
                    if !in_frag {
                        continue;
                    }
                    !f
                }
                _ => in_frag,
            };
            cur.push(s);
            rec(cur, next, n, out);
            cur.pop();
        }
    }
    rec(&mut vec![], false, n, &mut out);
    out
}

#[derive(Clone, Debug, PartialEq)]
pub enum Ev {
    Msg(bool, Vec<u8>),
    Closed,
    ReadErr,
    OtherErr(String),
    None,
}

pub struct Wire {
    pub frames: Vec<Vec<u8>>,
}

fn frame_bytes(seq: &[Sym], data_len: usize) -> Vec<(Sym, Vec<u8>, Vec<u8>)> {
    // (symbol, payload, wire bytes)
    seq.iter()
        .enumerate()
        .map(|(i, &s)| {
            let key = if i % 2 == 0 { [1, 2, 3, 4] } else { [0xff, 0, 0x80, 0x7f] };
            let (op, fin, payload): (u8, bool, Vec<u8>) = match s {
                Sym::Text(f) => (1, f, (0..data_len).map(|j| b'a' + ((i + j) % 26) as u8).collect()),
                Sym::Bin(f) => (2, f, pattern(data_len).iter().map(|b| b.wrapping_add(i as u8)).collect()),
                Sym::Cont(f) => (0, f, (0..data_len).map(|j| b'A' + ((i + j) % 26) as u8).collect()),
                Sym::Ping(0) => (9, true, vec![]),
                Sym::Ping(1) => (9, true, b"p".to_vec()),
                Sym::Ping(_) => (9, true, pattern(125)),
                Sym::Pong => (10, true, b"x".to_vec()),
                Sym::Close(0) => (8, true, vec![]),
                Sym::Close(_) => (8, true, vec![0x03, 0xe8]),
            };
            let wire = ref_encode(fin, [false; 3], op, true, key, &payload);
            (s, payload, wire)
        })
        .collect()
}

/// Reference endpoint: what a receive loop must observe and what the server must have written
/// (after the 101), given the client frames and how the handler ends.
pub struct Expect {
    pub events: Vec<Ev>,
    pub out_frames: Vec<(u8, Vec<u8>)>,
}

pub fn reference(frames: &[(Sym, Vec<u8>, Vec<u8>)], stop_after_msgs: Option<usize>) -> Expect {
    let mut events = vec![];
    let mut out = vec![];
    let mut cur: Option<(bool, Vec<u8>)> = None;
    let mut closed = false;
    let mut msgs = 0usize;
    let mut stopped = false;
    for (s, payload, _) in frames {
        if let Some(k) = stop_after_msgs {
            if msgs >= k {
                stopped = true;
                break;
            }
        }
        match s {
            Sym::Text(fin) | Sym::Bin(fin) => {
                let text = matches!(s, Sym::Text(_));
                if *fin {
                    events.push(Ev::Msg(text, payload.clone()));
                    msgs += 1;
                } else {
                    cur = Some((text, payload.clone()));
                }
            }
            Sym::Cont(fin) => {
                let c = cur.as_mut().expect("valid sequence");
                c.1.extend_from_slice(payload);
                if *fin {
                    let (t, p) = cur.take().unwrap();
                    events.push(Ev::Msg(t, p));
                    msgs += 1;
                }
            }
            Sym::Ping(_) => out.push((10u8, payload.clone())),
            Sym::Pong => {}
            Sym::Close(_) => {
                out.push((8u8, payload.clone()));
                events.push(Ev::Closed);
                closed = true;
            }
        }
    }
    if let Some(k) = stop_after_msgs {
        if msgs >= k {
            stopped = true;
        }
    }
    if !closed {
        if !stopped {
            // the client vanished: the receive loop sees a read error
            events.push(Ev::ReadErr);
        }
        // dropping a stream that was not closed sends a Close
        out.push((8u8, vec![]));
    }
    Expect { events, out_frames: out }
}

/// strict parser for what the server wrote: unmasked, RSV 0, known opcode, control frames FIN and <=125
pub fn parse_server_frames(mut b: &[u8]) -> Result<Vec<(u8, bool, Vec<u8>)>, String> {
    let mut v = vec![];
    while !b.is_empty() {
        if b.len() < 2 {
            return Err(format!("trailing {} byte(s) that are not a frame: {}", b.len(), show(b)));
        }
        let (b0, b1) = (b[0], b[1]);
        if b0 & 0x70 != 0 {
            return Err(format!("RSV bits set in {}", show(&b[..2])));
        }
        let op = b0 & 0xf;
        if ![0, 1, 2, 8, 9, 10].contains(&op) {
            return Err(format!("bytes do not start a frame (opcode {:#x}): {}", op, show(&b[..b.len().min(12)])));
        }
        if b1 & 0x80 != 0 {
            return Err("server frame is masked".into());
        }
        let (len, hdr) = match b1 & 0x7f {
            126 => {
                if b.len() < 4 {
                    return Err("truncated frame".into());
                }
                (u16::from_be_bytes([b[2], b[3]]) as usize, 4)
            }
            127 => {
                if b.len() < 10 {
                    return Err("truncated frame".into());
                }
                (u64::from_be_bytes(b[2..10].try_into().unwrap()) as usize, 10)
            }
            n => (n as usize, 2),
        };
        if op >= 8 && (len > 125 || b0 & 0x80 == 0) {
            return Err("malformed control frame".into());
        }
        if b.len() < hdr + len {
            return Err(format!("truncated frame: header announces {} payload bytes, {} present ({})", len, b.len() - hdr, show(&b[..b.len().min(12)])));
        }
        v.push((op, b0 & 0x80 != 0, b[hdr..hdr + len].to_vec()));
        b = &b[hdr + len..];
    }
    Ok(v)
}

const HANDSHAKE: &str = "GET /ws HTTP/1.1\r\nHost: x.test\r\nUpgrade: websocket\r\nConnection: Upgrade\r\nSec-WebSocket-Version: 13\r\n";

fn request_with_key(key: Option<&str>) -> Request {
    let mut t = HANDSHAKE.to_string();
    if let Some(k) = key {
        t.push_str(&format!("Sec-WebSocket-Key: {}\r\n", k));
    }
    t.push_str("\r\n");
    let addr: SocketAddr = "127.0.0.1:4000".parse().unwrap();
    Request::from_stream(&mut t.as_bytes(), addr).expect("handshake request parses")
}

pub fn accept_for(key: &str) -> String {
    ref_b64_encode(&ref_sha1(format!("{}258EAFA5-E914-47DA-95CA-C5AB0DC85B11", key).as_bytes()))
}

#[derive(Clone, Copy, Debug, PartialEq)]
pub enum Mode {
    Blocking,
    NonBlocking,
    /// poll once; if nothing has arrived yet, wait for the next message with the blocking receive
    Mixed,
}

/// Runs the real handler over a scripted socket. Returns (events seen by the handler, bytes written, reads issued, none_ok)
pub fn run_endpoint(steps: Vec<Step>, mode: Mode, stop_after_msgs: Option<usize>, key: Option<&str>, polls: usize) -> (Vec<Ev>, Vec<u8>, bool) {
    let sock = ScriptSock::new("127.0.0.1:4000".parse().unwrap(), steps);
    let events: Arc<Mutex<Vec<Ev>>> = Arc::new(Mutex::new(vec![]));
    let called = Arc::new(Mutex::new(false));
    let (ev2, called2, sock2) = (events.clone(), called.clone(), sock.clone());
    let handler = websocket_handler(move |mut ws: WebsocketStream, _st: Arc<()>| {
        *called2.lock().unwrap() = true;
        let mut msgs = 0usize;
        let mut n = 0usize;
        loop {
            // an endpoint that keeps "delivering" without consuming input must not run the harness out of memory
            if msgs > 10_000 {
                ev2.lock().unwrap().push(Ev::OtherErr("more than 10000 messages delivered from a script of a few frames".into()));
                break;
            }
            if let Some(k) = stop_after_msgs {
                if msgs >= k {
                    break;
                }
            }
            match mode {
                Mode::Blocking => match ws.recv() {
                    Ok(m) => {
                        msgs += 1;
                        ev2.lock().unwrap().push(Ev::Msg(m.is_text(), m.bytes().to_vec()));
                    }
                    Err(WebsocketError::ConnectionClosed) => {
                        ev2.lock().unwrap().push(Ev::Closed);
                        break;
                    }
                    Err(WebsocketError::ReadError) => {
                        ev2.lock().unwrap().push(Ev::ReadErr);
                        break;
                    }
                    Err(e) => {
                        ev2.lock().unwrap().push(Ev::OtherErr(format!("{:?}", e)));
                        break;
                    }
                },
                Mode::Mixed => {
                    let r: Result<humphrey_ws::Message, WebsocketError> = match ws.recv_nonblocking() {
                        Restion::Ok(m) => Ok(m),
                        Restion::Err(e) => Err(e),
                        Restion::None => ws.recv(),
                    };
                    match r {
                        Ok(m) => {
                            msgs += 1;
                            ev2.lock().unwrap().push(Ev::Msg(m.is_text(), m.bytes().to_vec()));
                        }
                        Err(WebsocketError::ConnectionClosed) => {
                            ev2.lock().unwrap().push(Ev::Closed);
                            break;
                        }
                        Err(WebsocketError::ReadError) => {
                            ev2.lock().unwrap().push(Ev::ReadErr);
                            break;
                        }
                        Err(e) => {
                            ev2.lock().unwrap().push(Ev::OtherErr(format!("{:?}", e)));
                            break;
                        }
                    }
                }
                Mode::NonBlocking => {
                    n += 1;
                    if n > polls {
                        break;
                    }
                    match ws.recv_nonblocking() {
                        Restion::Ok(m) => {
                            msgs += 1;
                            ev2.lock().unwrap().push(Ev::Msg(m.is_text(), m.bytes().to_vec()));
                        }
                        Restion::Err(WebsocketError::ConnectionClosed) => {
                            ev2.lock().unwrap().push(Ev::Closed);
                            break;
                        }
                        Restion::Err(WebsocketError::ReadError) => {
                            ev2.lock().unwrap().push(Ev::ReadErr);
                            break;
                        }
                        Restion::Err(e) => {
                            ev2.lock().unwrap().push(Ev::OtherErr(format!("{:?}", e)));
                            break;
                        }
                        Restion::None => {
                            // legitimate only if nothing of the next frame had arrived: the read that made the
                            // endpoint give up must have found no data (would-block or end of stream)
                            let (last, exhausted) = {
                                let g = sock2.lock().unwrap();
                                (g.last_read, g.steps.is_empty() && g.cur.is_empty())
                            };
                            if !(last == 'w' || last == 'e') {
                                ev2.lock().unwrap().push(Ev::OtherErr("None although bytes of the next frame had arrived".into()));
                            }
                            ev2.lock().unwrap().push(Ev::None);
                            if exhausted {
                                break;
                            }
                        }
                    }
                }
            }
        }
    });
    let req = request_with_key(key);
    let _call = crate::report::enter(format!("websocket endpoint, {:?} receive, script of {} segments", mode, sock.lock().unwrap().steps.len()).as_bytes());
    handler(req, Stream::Tcp(TcpStream::Script(sock.clone())), Arc::new(()));
    let out = sock.lock().unwrap().out.clone();
    let ev = events.lock().unwrap().clone();
    let c = *called.lock().unwrap();
    (ev, out, c)
}

fn split_handshake(out: &[u8]) -> Option<(String, &[u8])> {
    let p = out.windows(4).position(|w| w == b"\r\n\r\n")?;
    Some((String::from_utf8_lossy(&out[..p + 4]).to_string(), &out[p + 4..]))
}

fn handshakes(st: &mut Stats) {
    let mut s = Stats::default();
    let long: String = std::iter::repeat("Ab0+/").take(200).collect();
    let keys: Vec<Option<String>> = vec![
        None,
        Some("dGhlIHNhbXBsZSBub25jZQ==".into()),
        Some("x3JJHMbDL1EzLkh9GBhXDw==".into()),
        Some("AAAAAAAAAAAAAAAAAAAAAA==".into()),
        Some(long),
        Some("key with spaces inside".into()),
        Some("~!@#$%^&*()_+{}|<>?".into()),
    ];
    // every key length 0..130: key + GUID then covers every SHA-1 padding / block-boundary case
    let mut keys = keys;
    for n in 0..=130usize {
        keys.push(Some((0..n).map(|i| (b'A' + ((i * 7 + n) % 26) as u8) as char).collect()));
    }
    for k in &keys {
        s.evaluations += 1;
        s.states += 1;
        s.transitions += 1;
        s.nontrivial += 1;
        let r = std::panic::catch_unwind(|| run_endpoint(vec![Step::Eof], Mode::Blocking, Some(0), k.as_deref(), 0));
        let Ok((_, out, called)) = r else {
            s.violation("handshake: panicked", || json!({"key": k}));
            continue;
        };
        match k {
            None => {
                if called || out.windows(12).any(|w| w == b"HTTP/1.1 101") {
                    s.violation("handshake: request without Sec-WebSocket-Key was upgraded", || json!({"out": show(&out)}));
                }
                s.outcome("no-key-not-upgraded");
            }
            Some(key) => {
                let ok = split_handshake(&out).map(|(head, _)| {
                    let lines: Vec<&str> = head.split("\r\n").collect();
                    let status_ok = lines.first().map_or(false, |l| l.starts_with("HTTP/1.1 101"));
                    let acc = lines.iter().find_map(|l| {
                        let (n, v) = l.split_once(':')?;
                        if n.eq_ignore_ascii_case("sec-websocket-accept") { Some(v.trim().to_string()) } else { None }
                    });
                    status_ok && acc.as_deref() == Some(accept_for(key).as_str()) && called
                });
                if ok != Some(true) {
                    s.violation("handshake: missing 101 or wrong Sec-WebSocket-Accept", || json!({"key": key, "expected_accept": accept_for(key), "out": show(&out[..out.len().min(300)])}));
                }
                s.outcome("upgraded");
            }
        }
    }
    // empty key value: header present but empty
    st.merge(s);
}

/// The asynchronous flavour of the upgrade handler (`async_websocket_handler`, used to link an
/// AsyncWebsocketApp to an App) and the `Read`/`Write` view of a WebsocketStream.
fn other_entry_points(st: &mut Stats) {
    use humphrey_ws::handler::async_websocket_handler;
    use std::io::{Read, Write};
    let mut s = Stats::default();
    // (a) the hook receives the upgraded stream exactly when the handshake succeeded
    let keys: Vec<Option<String>> = vec![None, Some("dGhlIHNhbXBsZSBub25jZQ==".into()), Some(String::new()), Some("k".repeat(20))];
    for k in &keys {
        s.evaluations += 1;
        s.states += 1;
        s.transitions += 1;
        s.nontrivial += 1;
        let (tx, rx) = humphrey::verif::sync::mpsc::channel::<WebsocketStream>();
        let hook = Arc::new(humphrey::verif::sync::Mutex::new(tx));
        let sock = ScriptSock::new("127.0.0.1:4000".parse().unwrap(), vec![Step::Eof]);
        let (s2, k2) = (sock.clone(), k.clone());
        let r = std::panic::catch_unwind(std::panic::AssertUnwindSafe(move || {
            let h = async_websocket_handler::<()>(hook);
            h(request_with_key(k2.as_deref()), Stream::Tcp(TcpStream::Script(s2)), Arc::new(()));
        }));
        let out = sock.lock().unwrap().out.clone();
        let delivered = rx.try_recv().is_ok();
        let second = rx.try_recv().is_ok();
        let ctx = || json!({"entry": "async_websocket_handler", "key": k, "out": show(&out[..out.len().min(200)]), "stream_handed_to_the_app": delivered});
        if r.is_err() {
            s.violation("handshake: panicked", ctx);
            continue;
        }
        match k {
            None => {
                if delivered || out.windows(12).any(|w| w == b"HTTP/1.1 101") {
                    s.violation("handshake: request without Sec-WebSocket-Key was upgraded", ctx);
                }
            }
            Some(key) => {
                let ok = split_handshake(&out).map_or(false, |(head, rest)| {
                    let acc = head.split("\r\n").find_map(|l| l.split_once(':').filter(|(n, _)| n.eq_ignore_ascii_case("sec-websocket-accept")).map(|(_, v)| v.trim().to_string()));
                    head.starts_with("HTTP/1.1 101") && acc.as_deref() == Some(accept_for(key).as_str()) && rest.is_empty()
                });
                if !ok || !delivered || second {
                    s.violation("handshake: missing 101 or wrong Sec-WebSocket-Accept", ctx);
                }
            }
        }
        s.outcome("async-upgrade");
    }
    // (b) Read: one message per call, only if it fits; Write: one message per call
    for len in [0usize, 1, 5, 126] {
        for cap in [len.saturating_sub(1), len, len + 1] {
            s.evaluations += 1;
            s.states += 1;
            s.transitions += 1;
            s.nontrivial += 1;
            let payload = pattern(len);
            let frame = ref_encode(true, [false; 3], 2, true, [1, 2, 3, 4], &payload);
            let sock = ScriptSock::new("127.0.0.1:4000".parse().unwrap(), vec![Step::Seg(frame), Step::Eof]);
            let res: Arc<Mutex<Option<(std::io::Result<usize>, Vec<u8>, std::io::Result<usize>)>>> = Arc::new(Mutex::new(None));
            let r2 = res.clone();
            let handler = websocket_handler(move |mut ws: WebsocketStream, _st: Arc<()>| {
                let mut buf = vec![0u8; cap];
                let n = ws.read(&mut buf);
                let w = ws.write(b"abc");
                *r2.lock().unwrap() = Some((n, buf, w));
            });
            let s2 = sock.clone();
            let r = std::panic::catch_unwind(std::panic::AssertUnwindSafe(move || handler(request_with_key(Some("dGhlIHNhbXBsZSBub25jZQ==")), Stream::Tcp(TcpStream::Script(s2)), Arc::new(()))));
            let out = sock.lock().unwrap().out.clone();
            let ctx = || json!({"entry": "impl Read/Write for WebsocketStream", "message_len": len, "buffer_len": cap});
            let Some((n, buf, w)) = res.lock().unwrap().take() else {
                s.violation("Read/Write on a WebsocketStream: handler not run or panicked", ctx);
                continue;
            };
            let _ = r;
            let fits = len <= cap;
            let read_ok = match &n {
                Ok(k) => fits && *k == len && buf[..len] == payload[..],
                Err(_) => !fits,
            };
            let frames = split_handshake(&out).map(|(_, rest)| parse_server_frames(rest));
            let wrote_ok = matches!(w, Ok(3)) && matches!(&frames, Some(Ok(f)) if f.first().map_or(false, |x| x.2 == b"abc" && x.1));
            if !read_ok || !wrote_ok {
                s.violation("Read/Write on a WebsocketStream does not deliver / send exactly one message", || json!({"message_len": len, "buffer_len": cap, "read": format!("{:?}", n), "write": format!("{:?}", w), "server_frames": format!("{:?}", frames).chars().take(200).collect::<String>()}));
            }
            s.outcome("io-traits");
        }
    }
    st.merge(s);
}

/// what the server writes through WebsocketStream::send for every payload length class
fn server_sends(st: &mut Stats, quick: bool) {
    let mut s = Stats::default();
    let lens: Vec<usize> = if quick { vec![0, 1, 125, 126, 127, 65535, 65536, 65537] } else { vec![0, 1, 2, 124, 125, 126, 127, 128, 255, 256, 65534, 65535, 65536, 65537, 131072, 1 << 20] };
    for &len in &lens {
        for text in [false, true] {
            s.evaluations += 1;
            s.states += 1;
            s.transitions += 2;
            s.nontrivial += 1;
            let payload: Vec<u8> = if text { (0..len).map(|i| b'a' + (i % 26) as u8).collect() } else { pattern(len.max(1))[..len].to_vec() };
            let sock = ScriptSock::new("127.0.0.1:4000".parse().unwrap(), vec![Step::Eof]);
            let p2 = payload.clone();
            let handler = websocket_handler(move |mut ws: WebsocketStream, _st: Arc<()>| {
                let m = if text { humphrey_ws::Message::new(&p2) } else { humphrey_ws::Message::new_binary(&p2) };
                let _ = ws.send(m);
                let _ = ws.send(humphrey_ws::Message::new("after"));
            });
            let r = std::panic::catch_unwind(std::panic::AssertUnwindSafe(|| handler(request_with_key(Some("dGhlIHNhbXBsZSBub25jZQ==")), Stream::Tcp(TcpStream::Script(sock.clone())), Arc::new(()))));
            let out = sock.lock().unwrap().out.clone();
            let ctx = |what: String| json!({"what": what, "payload_len": len, "text": text, "server_bytes_head": split_handshake(&out).map(|(_, a)| show(&a[..a.len().min(24)]))});
            if r.is_err() {
                s.violation("server send: panicked", || ctx("panic".into()));
                continue;
            }
            let Some((_, after)) = split_handshake(&out) else {
                s.violation("no handshake response written", || ctx("".into()));
                continue;
            };
            match parse_server_frames(after) {
                Ok(fr) => {
                    let want = vec![(if text { 1u8 } else { 2u8 }, true, payload.clone()), (1u8, true, b"after".to_vec()), (8u8, true, vec![])];
                    if fr != want {
                        s.violation("server send: frames written differ from the messages sent", || ctx(format!("{:?}", fr.iter().map(|f| (f.0, f.1, f.2.len())).collect::<Vec<_>>())));
                    } else {
                        s.outcome("server-send-ok");
                    }
                }
                Err(e) => s.violation("server send: bytes written are not well-formed frames (wrong length form?)", || ctx(e.clone())),
            }
        }
    }
    st.merge(s);
}

fn cut_positions(frames: &[(Sym, Vec<u8>, Vec<u8>)], total: usize) -> Vec<usize> {
    let mut v: Vec<usize> = (1..=14.min(total.saturating_sub(1))).collect();
    let mut off = 0;
    for (i, f) in frames.iter().enumerate() {
        if i > 0 {
            v.push(off);
            // and inside each later frame's header
            v.push(off + 1);
        }
        off += f.2.len();
    }
    v.retain(|&c| c >= 1 && c < total);
    v.sort();
    v.dedup();
    v
}

fn segs(bytes: &[u8], cuts: &[usize]) -> Vec<Step> {
    let mut v = vec![];
    let mut last = 0;
    for &c in cuts {
        v.push(Step::Seg(bytes[last..c].to_vec()));
        last = c;
    }
    if last < bytes.len() {
        v.push(Step::Seg(bytes[last..].to_vec()));
    }
    v
}

fn compare(s: &mut Stats, label: &str, seq: &[Sym], ctx: impl Fn() -> serde_json::Value, want: &Expect, got_events: &[Ev], out: &[u8]) {
    let Some((_, after)) = split_handshake(out) else {
        s.violation("no handshake response written", &ctx);
        return;
    };
    let _ = seq;
    let evs: Vec<Ev> = got_events.iter().filter(|e| **e != Ev::None).cloned().collect();
    if let Some(Ev::OtherErr(m)) = evs.iter().find(|e| matches!(e, Ev::OtherErr(_))) {
        s.violation(format!("{}: {}", label, m), &ctx);
        return;
    }
    if evs != want.events {
        let class = if evs.iter().filter(|e| matches!(e, Ev::Msg(..))).count() != want.events.iter().filter(|e| matches!(e, Ev::Msg(..))).count() {
            "messages delivered differ from messages sent (count)"
        } else if evs.iter().zip(&want.events).any(|(a, b)| matches!((a, b), (Ev::Msg(t1, _), Ev::Msg(t2, _)) if t1 != t2)) {
            "text/binary flag not taken from the first fragment"
        } else if evs.iter().zip(&want.events).any(|(a, b)| matches!((a, b), (Ev::Msg(_, p1), Ev::Msg(_, p2)) if p1 != p2)) {
            "message payload differs from the concatenated fragments"
        } else {
            "wrong terminal event (closed / read error)"
        };
        s.violation(format!("{}: {}", label, class), || {
            let mut c = ctx();
            c["expected_events"] = json!(format!("{:?}", want.events).chars().take(300).collect::<String>());
            c["got_events"] = json!(format!("{:?}", evs).chars().take(300).collect::<String>());
            c
        });
        return;
    }
    match parse_server_frames(after) {
        Err(e) => {
            let class = if want.out_frames.iter().any(|f| f.0 == 10) && !want.out_frames.iter().any(|f| f.0 == 8 && !f.1.is_empty()) {
                "Ping/Close reply or drop-time Close is not a frame"
            } else {
                "Ping/Close reply or drop-time Close is not a frame"
            };
            s.violation(format!("{}: server wrote bytes that are not well-formed frames ({})", label, class), || {
                let mut c = ctx();
                c["parse_error"] = json!(e);
                c["server_bytes"] = json!(show(&after[..after.len().min(64)]));
                c
            });
        }
        Ok(fr) => {
            let got: Vec<(u8, Vec<u8>)> = fr.iter().map(|f| (f.0, f.2.clone())).collect();
            if got != want.out_frames {
                let pongs = |v: &Vec<(u8, Vec<u8>)>| v.iter().filter(|f| f.0 == 10).cloned().collect::<Vec<_>>();
                let closes = |v: &Vec<(u8, Vec<u8>)>| v.iter().filter(|f| f.0 == 8).count();
                let class = if pongs(&got) != pongs(&want.out_frames) {
                    "Pongs do not answer the Pings one-to-one with equal payload"
                } else if closes(&got) > closes(&want.out_frames) {
                    "more than one Close written"
                } else if closes(&got) < closes(&want.out_frames) {
                    "Close not answered / no Close on drop"
                } else {
                    "frames written differ from the reference endpoint"
                };
                s.violation(format!("{}: {}", label, class), || {
                    let mut c = ctx();
                    c["expected_frames"] = json!(format!("{:?}", want.out_frames).chars().take(300).collect::<String>());
                    c["got_frames"] = json!(format!("{:?}", got).chars().take(300).collect::<String>());
                    c
                });
            }
        }
    }
}

fn endpoint_family(st: &mut Stats, maxlen: usize, data_lens: &[usize], nb_dev: usize) {
    let seqs = sequences(maxlen);
    st.count("client_scripts", seqs.len() as u64);
    let part = seqs
        .par_iter()
        .map(|seq| {
            let mut s = Stats::default();
            for &dl in data_lens {
                let frames = frame_bytes(seq, dl);
                let all: Vec<u8> = frames.iter().flat_map(|f| f.2.clone()).collect();
                let nmsgs = reference(&frames, None).events.iter().filter(|e| matches!(e, Ev::Msg(..))).count();
                s.states += 1;
                if seq.len() >= 2 {
                    s.nontrivial += 1;
                }
                // ---- blocking receive: plans x handler endings ----
                let cuts = cut_positions(&frames, all.len());
                let mut plans: Vec<Vec<usize>> = vec![vec![]];
                if all.len() <= 600 {
                    plans.push((1..all.len()).collect());
                }
                for &c in &cuts {
                    plans.push(vec![c]);
                }
                // one segment per frame
                let mut bounds = vec![];
                let mut off = 0;
                for f in &frames[..frames.len() - 1] {
                    off += f.2.len();
                    bounds.push(off);
                }
                if bounds.len() >= 2 {
                    plans.push(bounds.clone());
                }
                let mut stops: Vec<Option<usize>> = vec![None];
                for k in 0..=nmsgs {
                    stops.push(Some(k));
                }
                for plan in &plans {
                    for &stop in &stops {
                        s.evaluations += 1;
                        s.transitions += seq.len() as u64;
                        let steps = segs(&all, plan);
                        let want = reference(&frames, stop);
                        let r = std::panic::catch_unwind(|| run_endpoint(steps, Mode::Blocking, stop, Some("dGhlIHNhbXBsZSBub25jZQ=="), 0));
                        let ctx = || json!({"client_frames": format!("{:?}", seq), "data_len": dl, "cuts": plan, "handler_stops_after_msgs": stop, "mode": "blocking"});
                        match r {
                            Err(_) => s.violation("blocking: endpoint panicked", ctx),
                            Ok((ev, out, _)) => {
                                compare(&mut s, "blocking", seq, ctx, &want, &ev, &out);
                                s.outcome(format!("{:?}", want.events.last().map(|e| match e { Ev::Msg(..) => "msg", Ev::Closed => "closed", Ev::ReadErr => "readerr", _ => "?" })));
                            }
                        }
                    }
                }
                // ---- non-blocking receive: `not yet` answers before frames (<= nb_dev of them), header cuts ----
                let nf = frames.len();
                let mut pend_plans: Vec<Vec<usize>> = vec![vec![0; nf]];
                for i in 0..nf {
                    let mut p = vec![0; nf];
                    p[i] = 1;
                    pend_plans.push(p.clone());
                    if nb_dev >= 2 {
                        p[i] = 2;
                        pend_plans.push(p.clone());
                        for j in i + 1..nf {
                            let mut q = vec![0; nf];
                            q[i] = 1;
                            q[j] = 1;
                            pend_plans.push(q);
                        }
                    }
                }
                // blocking and non-blocking receive mixed on one connection: nothing has arrived at each poll (the
                // client is slow), the endpoint then waits with the blocking receive, which must deliver the same
                // messages as blocking receive alone (a poll that found nothing must leave the socket as it was)
                {
                    let mut steps = vec![];
                    for f in frames.iter() {
                        steps.push(Step::Pending);
                        steps.push(Step::Pending);
                        steps.push(Step::Seg(f.2.clone()));
                    }
                    s.evaluations += 1;
                    s.transitions += seq.len() as u64;
                    let want = reference(&frames, None);
                    let r = std::panic::catch_unwind(|| run_endpoint(steps, Mode::Mixed, None, Some("dGhlIHNhbXBsZSBub25jZQ=="), 0));
                    let ctx = || json!({"client_frames": format!("{:?}", seq), "data_len": dl, "mode": "poll, then blocking receive when nothing had arrived"});
                    match r {
                        Err(_) => s.violation("mixed receive: endpoint panicked", ctx),
                        Ok((ev, out, _)) => compare(&mut s, "mixed receive", seq, ctx, &want, &ev, &out),
                    }
                }
                for pp in &pend_plans {
                    // variants: each frame whole; or the k-th frame split after its first byte / second byte / inside key
                    let mut splits: Vec<Option<(usize, usize)>> = vec![None];
                    for k in 0..nf {
                        for at in [1usize, 2, 3, 5] {
                            if at < frames[k].2.len() {
                                splits.push(Some((k, at)));
                            }
                        }
                    }
                    for sp in &splits {
                        let mut steps = vec![];
                        for (i, f) in frames.iter().enumerate() {
                            for _ in 0..pp[i] {
                                steps.push(Step::Pending);
                            }
                            match sp {
                                Some((k, at)) if *k == i => {
                                    steps.push(Step::Seg(f.2[..*at].to_vec()));
                                    steps.push(Step::Seg(f.2[*at..].to_vec()));
                                }
                                _ => steps.push(Step::Seg(f.2.clone())),
                            }
                        }
                        s.evaluations += 1;
                        s.transitions += seq.len() as u64;
                        let polls = nf * 3 + 6;
                        let mut want = reference(&frames, None);
                        // non-blocking receive cannot see a vanished client (documented): no ReadErr at the end
                        // unless the client vanished in the middle of a message (blocking continuation read)
                        let mid_message = {
                            let mut in_frag = false;
                            for f in &frames {
                                match f.0 {
                                    Sym::Text(fin) | Sym::Bin(fin) | Sym::Cont(fin) => in_frag = !fin,
                                    _ => {}
                                }
                            }
                            in_frag
                        };
                        if want.events.last() == Some(&Ev::ReadErr) && !mid_message {
                            want.events.pop();
                        }
                        let r = std::panic::catch_unwind(|| run_endpoint(steps, Mode::NonBlocking, None, Some("dGhlIHNhbXBsZSBub25jZQ=="), polls));
                        let ctx = || json!({"client_frames": format!("{:?}", seq), "data_len": dl, "not_yet_before_frame": pp, "split_frame_at": sp, "mode": "non-blocking"});
                        match r {
                            Err(_) => s.violation("non-blocking: endpoint panicked", ctx),
                            Ok((ev, out, _)) => compare(&mut s, "non-blocking", seq, ctx, &want, &ev, &out),
                        }
                    }
                }
            }
            if s.evaluations % 7 == 0 {
                s.sample(|| json!({"client_frames": format!("{:?}", seq)}));
            }
            s
        })
        .reduce(Stats::default, |mut a, b| {
            a.merge(b);
            a
        });
    st.merge(part);
}

pub fn run(mut cx: Ctx) -> ! {
    cx.rule = "every RFC-valid client frame script up to the length bound over a 12-symbol alphabet x payload classes is delivered to the real websocket_handler + WebsocketStream over a scripted socket under every delivery plan (whole, bytewise, every cut in the first 14 bytes, every frame boundary, one segment per frame) and every handler ending (read to the end, or drop after k messages); the non-blocking receive is driven with every placement of <=d `not yet` answers and every split of one frame header; events and every byte written are compared with a reference endpoint; states = distinct (script, payload class), transitions = frames processed; non-trivial = scripts of >=2 frames".into();
    let maxlen = cx.pick(4, 6);
    let data_lens: Vec<usize> = if cx.quick() { vec![0, 1, 126] } else { vec![0, 1, 126, 70_000] };
    let nb_dev = cx.pick(1, 2);
    let big_maxlen = 3usize;
    cx.bound("client_script_len", maxlen);
    cx.bound("data_payload_lengths", json!(data_lens));
    cx.bound("nonblocking_not_yet_deviations", nb_dev);
    cx.assume("a vanished client is not detected by non-blocking receive (documented limitation): the reference does not expect a read error there");
    let mut st = Stats::default();
    handshakes(&mut st);
    other_entry_points(&mut st);
    server_sends(&mut st, cx.quick());
    let small: Vec<usize> = data_lens.iter().copied().filter(|&l| l < 1000).collect();
    let big: Vec<usize> = data_lens.iter().copied().filter(|&l| l >= 1000).collect();
    endpoint_family(&mut st, maxlen, &small, nb_dev);
    if !big.is_empty() {
        endpoint_family(&mut st, big_maxlen, &big, 1);
    }
    cx.bound("client_script_len_for_70KiB_payloads", big_maxlen);
    cx.stats.merge(st);
    cx.finish()
}
