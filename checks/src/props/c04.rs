//! C04 — routing: first matching host, then first matching route there, else the default
//! application's first matching route, else 404; WebSocket upgrades by the same rule over the
//! WebSocket routes. Exhaustive over bounded configurations x requests (DESIGN.md §3 C04).

use crate::props::c01::read_responses;
use crate::props::c05::glob_ref;
use crate::report::{show, Ctx, Stats};
use humphrey::http::{Request, Response, StatusCode};
use humphrey::stream::Stream;
use humphrey::verif::net::{ScriptSock, Step, TcpStream};
use humphrey::{App, SubApp};
use rayon::prelude::*;
use serde_json::json;
use std::io::Write;
use std::sync::Arc;

#[derive(Clone, Debug)]
pub struct Cfg {
    /// (host pattern, http routes, websocket routes)
    pub hosts: Vec<(String, Vec<String>, Vec<String>)>,
    pub default_routes: Vec<String>,
    pub default_ws: Vec<String>,
}

fn subapp(tag: String, routes: &[String], ws: &[String]) -> SubApp<()> {
    let mut s: SubApp<()> = SubApp::new();
    for (i, r) in routes.iter().enumerate() {
        let id = format!("{}r{}", tag, i);
        s = s.with_route(r, move |_req: Request, _st: Arc<()>| Response::new(StatusCode::OK, id.as_bytes()));
    }
    for (i, r) in ws.iter().enumerate() {
        let id = format!("{}w{}", tag, i);
        s = s.with_websocket_route(r, move |_req: Request, mut stream: Stream, _st: Arc<()>| {
            let _ = stream.write_all(id.as_bytes());
        });
    }
    s
}

pub fn build(cfg: &Cfg) -> App<()> {
    let mut app: App<()> = App::new_with_config(1, ());
    app = app.with_default_subapp(subapp("d".into(), &cfg.default_routes, &cfg.default_ws));
    for (i, (h, routes, ws)) in cfg.hosts.iter().enumerate() {
        app = app.with_host(h, subapp(format!("h{}", i), routes, ws));
    }
    app
}

fn matches(p: &str, t: &str) -> bool {
    glob_ref(&p.chars().collect::<Vec<_>>(), &t.chars().collect::<Vec<_>>())
}

/// reference router: Some(handler id) or None (404 / closed)
pub fn reference(cfg: &Cfg, host: Option<&str>, path: &str, ws: bool) -> Option<String> {
    if let Some(h) = host {
        if let Some((i, (_, routes, wsr))) = cfg.hosts.iter().enumerate().find(|(_, (hp, _, _))| matches(hp, h)) {
            let list = if ws { wsr } else { routes };
            if let Some(j) = list.iter().position(|r| matches(r, path)) {
                return Some(format!("h{}{}{}", i, if ws { "w" } else { "r" }, j));
            }
        }
    }
    let list = if ws { &cfg.default_ws } else { &cfg.default_routes };
    list.iter().position(|r| matches(r, path)).map(|j| format!("d{}{}", if ws { "w" } else { "r" }, j))
}

pub const HOSTS_REQ: [Option<&str>; 8] = [None, Some("x.test"), Some("y.test"), Some("x.test:80"), Some("other"), Some("x.y"), Some("x.test.test"), Some("x.x.test")];
// targets include repeats of the literal tails of the patterns (`*b` vs `/b/b`, `/*/b` vs `/x/b/b`): a matcher
// that does not retry its last wildcard fails exactly there
pub const TARGETS: [(&str, &str); 12] = [("/", "/"), ("/a", "/a"), ("/ab", "/ab"), ("/a/b", "/a/b"), ("/b", "/b"), ("/a?q", "/a"), ("/a/b?x=/b", "/a/b"), ("/x/b?/a", "/x/b"), ("/b/b", "/b/b"), ("/x/b/b", "/x/b/b"), ("/ab/ab", "/ab/ab"), ("/a/a", "/a/a")];

fn check_cfg(s: &mut Stats, cfg: &Cfg, with_ws: bool) {
    let parts = build(cfg).verif_into_parts();
    s.states += 1;
    if !cfg.hosts.is_empty() {
        s.nontrivial += 1;
    }
    for host in HOSTS_REQ {
        for (target, path) in TARGETS {
            for ws in [false, true] {
                if ws && !with_ws {
                    continue;
                }
                for extra in ["", "X-Route: /a\r\nX-Host: x.test\r\n"] {
                    if !extra.is_empty() && !(target == "/ab" || target == "/a?q") {
                        continue;
                    }
                    s.evaluations += 1;
                    s.transitions += 1;
                    let mut req = format!("GET {} HTTP/1.1\r\n", target);
                    if let Some(h) = host {
                        req.push_str(&format!("Host: {}\r\n", h));
                    }
                    req.push_str(extra);
                    if ws {
                        req.push_str("Upgrade: websocket\r\nConnection: Upgrade\r\n");
                    } else {
                        req.push_str("Connection: close\r\n");
                    }
                    req.push_str("\r\n");
                    let sock = ScriptSock::new("127.0.0.1:9".parse().unwrap(), vec![Step::Seg(req.clone().into_bytes()), Step::Eof]);
                    let s2 = sock.clone();
                    let r = std::panic::catch_unwind(std::panic::AssertUnwindSafe(|| parts.serve(Stream::Tcp(TcpStream::Script(s2)))));
                    let out = sock.lock().unwrap().out.clone();
                    let want = reference(cfg, host, path, ws);
                    let ctx = |what: String| json!({"what": what, "hosts": format!("{:?}", cfg.hosts), "default_routes": cfg.default_routes, "default_ws": cfg.default_ws, "request_host": host, "target": target, "websocket": ws, "server_wrote": show(&out[..out.len().min(200)]), "expected_handler": want});
                    if r.is_err() {
                        s.violation("routing panicked", || ctx("panic".into()));
                        continue;
                    }
                    let got: Option<String> = if ws {
                        if out.is_empty() { None } else { Some(String::from_utf8_lossy(&out).to_string()) }
                    } else {
                        match read_responses(&out) {
                            Ok(g) if g.len() == 1 && g[0].status == 200 => Some(String::from_utf8_lossy(&g[0].body).to_string()),
                            Ok(g) if g.len() == 1 && g[0].status == 404 => None,
                            other => {
                                s.violation("routed request did not produce exactly one 200/404 response", || ctx(format!("{:?}", other.map(|g| g.iter().map(|x| x.status).collect::<Vec<_>>()))));
                                continue;
                            }
                        }
                    };
                    if got != want {
                        let class = match (&got, &want) {
                            (Some(g), Some(w)) if g.as_bytes()[0] != w.as_bytes()[0] || (g.starts_with('h') && g[..2] != w[..2]) => "request handled by the wrong host's application",
                            (Some(_), Some(_)) => "request handled by a later route although an earlier one matches (or vice versa)",
                            (None, Some(_)) => "no handler chosen although a registered route matches",
                            (Some(_), None) => "a handler answered although no route matches",
                            _ => "?",
                        };
                        s.violation(format!("{}: {}", if ws { "websocket" } else { "http" }, class), || ctx(format!("got {:?}", got)));
                    } else {
                        s.outcome(match &want { Some(w) if w.starts_with('h') => "host-route", Some(_) => "default-route", None => "no-route" });
                    }
                }
            }
        }
    }
}

fn seqs(menu: &[&str], max: usize) -> Vec<Vec<String>> {
    let mut out: Vec<Vec<String>> = vec![vec![]];
    let mut frontier = out.clone();
    for _ in 0..max {
        let mut next = vec![];
        for f in &frontier {
            for m in menu {
                let mut n = f.clone();
                n.push(m.to_string());
                next.push(n);
            }
        }
        out.extend(next.clone());
        frontier = next;
    }
    out
}

pub fn run(mut cx: Ctx) -> ! {
    cx.rule = "every application of the bounded configuration family (ordered host sub-apps x ordered route lists per sub-app x default routes, patterns with literals, prefixes, suffixes, infixes, `*`, adjacent `*`) is built through the public API and asked, through the real connection handler, for every request of Host {absent, exact, wildcard-matching, with port, non-matching} x 8 targets (with and without query, query containing other routes) x {plain, WebSocket upgrade}, also with decoy headers naming other routes; the answering handler's identity must be the reference router's choice; states = distinct applications, transitions = requests routed; non-trivial = applications with host sub-apps".into();
    let quick = cx.quick();
    let pats_small = ["/a", "/a*", "/*", "*b", "/*/b"];
    let pats_full = ["/", "/a", "/a*", "/*", "*", "/a/*", "*b", "/*/b", "/**", "/a?q"];
    let hosts = ["x.test", "*.test", "x.*", "x.test:80"];
    let mut cfgs: Vec<(Cfg, bool)> = vec![];
    // default application only: all route lists of length <= 2 (3) over the full pattern menu, plain and websocket
    for l in seqs(&pats_full, if quick { 2 } else { 3 }) {
        cfgs.push((Cfg { hosts: vec![], default_routes: l.clone(), default_ws: l.iter().rev().cloned().collect() }, true));
    }
    // one host: host x routes(<=2) x default routes(<=2)
    let rl = seqs(&pats_small, 2);
    for h in hosts {
        for hr in &rl {
            for dr in &rl {
                cfgs.push((Cfg { hosts: vec![(h.to_string(), hr.clone(), hr.clone())], default_routes: dr.clone(), default_ws: dr.clone() }, hr.len() + dr.len() <= 2));
            }
        }
    }
    // two hosts (shadowing and overlap arise by construction): all ordered pairs of hosts x route lists
    let rl2 = seqs(&pats_small, 2);
    let dl2 = seqs(&pats_small, if quick { 1 } else { 2 });
    for h1 in hosts {
        for h2 in hosts {
            for r1 in &rl2 {
                for r2 in &rl2 {
                    for d in &dl2 {
                        cfgs.push((Cfg { hosts: vec![(h1.to_string(), r1.clone(), r1.clone()), (h2.to_string(), r2.clone(), r2.clone())], default_routes: d.clone(), default_ws: d.clone() }, false));
                    }
                }
            }
        }
    }
    if !quick {
        // three hosts with single-route lists
        for h1 in hosts {
            for h2 in hosts {
                for h3 in hosts {
                    for r in &seqs(&pats_small, 1) {
                        cfgs.push((Cfg { hosts: vec![(h1.into(), r.clone(), vec![]), (h2.into(), vec!["/*".into()], vec![]), (h3.into(), r.clone(), vec![])], default_routes: vec!["/a".into()], default_ws: vec![] }, false));
                    }
                }
            }
        }
    }
    cx.bound("applications", cfgs.len());
    let part = cfgs
        .par_iter()
        .fold(Stats::default, |mut s, (c, ws)| {
            check_cfg(&mut s, c, *ws);
            if s.states % 500 == 1 {
                s.sample(|| json!({"hosts": format!("{:?}", c.hosts), "default_routes": c.default_routes}));
            }
            s
        })
        .reduce(Stats::default, |mut a, b| {
            a.merge(b);
            a
        });
    cx.stats.merge(part);
    cx.assume("threaded runtime; host patterns are matched against the raw Host header value (a port is part of it)");
    cx.finish()
}
