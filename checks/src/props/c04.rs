//! C04 — routing: first matching host, then first matching route there, else the default
//! application's first matching route, else 404; WebSocket upgrades by the same rule over the
//! WebSocket routes. Exhaustive over bounded configurations x requests (DESIGN.md §3 C04).
//! Family, reference and judge live in c04_gen.rs (shared with the tokio runner).

pub use crate::props::c04_gen::*;
use crate::report::{Ctx, Stats};
use humphrey::http::{Request, Response, StatusCode};
use humphrey::stream::Stream;
use humphrey::verif::net::{ScriptSock, Step, TcpStream};
use humphrey::{App, SubApp};
use rayon::prelude::*;
use serde_json::json;
use std::io::Write;
use std::sync::Arc;

fn subapp(tag: String, routes: &[String], ws: &[String], cfg: &Cfg) -> SubApp<()> {
    let mut s: SubApp<()> = SubApp::new();
    for (i, r) in routes.iter().enumerate() {
        let id = format!("{}r{}", tag, i);
        s = match cfg.kind(i) {
            0 => s.with_route(r, move |_req: Request, _st: Arc<()>| Response::new(StatusCode::OK, id.as_bytes())),
            1 => s.with_stateless_route(r, move |_req: Request| Response::new(StatusCode::OK, id.as_bytes())),
            _ => {
                let reg = leak(r);
                s.with_path_aware_route(reg, move |_req: Request, _st: Arc<()>, route: &'static str| Response::new(StatusCode::OK, path_aware_answer(&id, reg, route)))
            }
        };
    }
    for (i, r) in ws.iter().enumerate() {
        let id = format!("{}w{}", tag, i);
        s = s.with_websocket_route(r, move |_req: Request, mut stream: Stream, _st: Arc<()>| {
            let _ = stream.write_all(id.as_bytes());
        });
    }
    s
}

pub fn build(cfg: &Cfg) -> App<()> {
    let mut app: App<()> = App::new_with_config(1, ());
    if cfg.direct {
        for (i, r) in cfg.default_routes.iter().enumerate() {
            let id = format!("dr{}", i);
            app = match cfg.kind(i) {
                0 => app.with_route(r, move |_req: Request, _st: Arc<()>| Response::new(StatusCode::OK, id.as_bytes())),
                1 => app.with_stateless_route(r, move |_req: Request| Response::new(StatusCode::OK, id.as_bytes())),
                _ => {
                    let reg = leak(r);
                    app.with_path_aware_route(reg, move |_req: Request, _st: Arc<()>, route: &'static str| Response::new(StatusCode::OK, path_aware_answer(&id, reg, route)))
                }
            };
        }
        for (i, r) in cfg.default_ws.iter().enumerate() {
            let id = format!("dw{}", i);
            app = app.with_websocket_route(r, move |_req: Request, mut stream: Stream, _st: Arc<()>| {
                let _ = stream.write_all(id.as_bytes());
            });
        }
    } else {
        app = app.with_default_subapp(subapp("d".into(), &cfg.default_routes, &cfg.default_ws, cfg));
    }
    for (i, (h, routes, ws)) in cfg.hosts.iter().enumerate() {
        app = app.with_host(h, subapp(format!("h{}", i), routes, ws, cfg));
    }
    app
}

fn check_cfg(s: &mut Stats, cfg: &Cfg, cases: &[Case]) {
    let Ok(parts) = std::panic::catch_unwind(std::panic::AssertUnwindSafe(|| build(cfg).verif_into_parts())) else {
        s.violation(format!("{}building the application through the public API panicked", if "".is_empty() { String::new() } else { format!("[{}] ", "") }), || serde_json::json!({"hosts": format!("{:?}", cfg.hosts), "default_routes": cfg.default_routes}));
        return;
    };
    s.states += 1;
    if !cfg.hosts.is_empty() {
        s.nontrivial += 1;
    }
    for c in cases {
        let sock = ScriptSock::new("127.0.0.1:9".parse().unwrap(), vec![Step::Seg(c.bytes.clone()), Step::Eof]);
        let s2 = sock.clone();
        let _call = crate::report::enter(&c.bytes);
        let r = std::panic::catch_unwind(std::panic::AssertUnwindSafe(|| parts.serve(Stream::Tcp(TcpStream::Script(s2)))));
        let out = sock.lock().unwrap().out.clone();
        judge(s, "", cfg, c, r.map(|_| out).map_err(|_| ()));
    }
}

pub fn run(mut cx: Ctx) -> ! {
    cx.rule = "every application of the bounded configuration family (ordered host sub-apps x ordered route lists per sub-app x default routes, patterns with literals, prefixes, suffixes, infixes, `*`, adjacent `*`) is built through the public API and asked, through the real connection handler, for every request of Host {absent, exact, wildcard-matching, with port, non-matching} x 12 targets (with and without query, query containing other routes) x {plain, WebSocket upgrade}, also with decoy headers naming other routes; the answering handler's identity must be the reference router's choice; the same applications and requests run through the tokio App's connection handler; states = distinct applications, transitions = requests routed; non-trivial = applications with host sub-apps".into();
    let cfgs = family(cx.quick());
    cx.bound("applications", cfgs.len());
    let (with, without) = (cases(true), cases(false));
    let part = cfgs
        .par_iter()
        .fold(Stats::default, |mut s, (c, ws)| {
            check_cfg(&mut s, c, if *ws { &with } else { &without });
            if s.states % 500 == 1 {
                s.sample(|| json!({"hosts": format!("{:?}", c.hosts), "default_routes": c.default_routes}));
            }
            s
        })
        .reduce(Stats::default, |mut a, b| {
            a.merge(b);
            a
        });
    cx.stats.merge(part);
    crate::tokio_twin::merge(&mut cx, "C04");
    cx.assume("host patterns are matched against the raw Host header value (a port is part of it)");
    cx.finish()
}
