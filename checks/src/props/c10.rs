//! C10 — WebSocket frame codec: RFC 6455 §5.2 layout, shortest length form, decode under any split.

use crate::plans::{plans, CutReader, Depth};
use crate::report::{Ctx, Stats};
use humphrey_ws::error::WebsocketError;
use humphrey_ws::verif::{decode, encode, FrameParts};
use humphrey_ws::Message;
use rayon::prelude::*;
use serde_json::json;

pub fn ref_encode(fin: bool, rsv: [bool; 3], opcode: u8, mask: bool, key: [u8; 4], payload: &[u8]) -> Vec<u8> {
    let mut b = vec![];
    b.push((fin as u8) << 7 | (rsv[0] as u8) << 6 | (rsv[1] as u8) << 5 | (rsv[2] as u8) << 4 | (opcode & 0xf));
    let m = (mask as u8) << 7;
    let n = payload.len();
    if n <= 125 {
        b.push(m | n as u8);
    } else if n <= 65535 {
        b.push(m | 126);
        b.extend_from_slice(&(n as u16).to_be_bytes());
    } else {
        b.push(m | 127);
        b.extend_from_slice(&(n as u64).to_be_bytes());
    }
    if mask {
        b.extend_from_slice(&key);
        b.extend(payload.iter().enumerate().map(|(i, x)| x ^ key[i % 4]));
    } else {
        b.extend_from_slice(payload);
    }
    b
}

pub fn pattern(n: usize) -> Vec<u8> {
    (0..n).map(|i| ((i * 131 + (i >> 8) * 7 + 3) & 0xff) as u8).collect()
}

const OPCODES: [u8; 6] = [0, 1, 2, 8, 9, 10];

fn focus_cuts(len: usize) -> Vec<usize> {
    // the header, the extended length, the key and the first payload bytes; the last bytes; and the places
    // where a chunked or buffered reader would wrap (4 KiB / 8 KiB / 64 KiB, counted from the start of the frame
    // and from the start of the payload under each header size)
    let mut f: Vec<usize> = (1..=24.min(len)).collect();
    for b in [4096usize, 8192, 65536] {
        for h in [0usize, 2, 4, 6, 8, 10, 14] {
            for d in [-1i64, 0, 1] {
                let p = (b + h) as i64 + d;
                if p > 0 && (p as usize) < len {
                    f.push(p as usize);
                }
            }
        }
    }
    for d in 1..=4 {
        if len > d {
            f.push(len - d);
        }
    }
    f.sort();
    f.dedup();
    f
}

fn check_decode(s: &mut Stats, bytes: &[u8], want: &Result<FrameParts, Vec<WebsocketError>>, label: &str, depth: Depth) {
    let focus = focus_cuts(bytes.len());
    let pl = if bytes.len() <= 24 { plans(bytes.len(), depth, None) } else { plans(bytes.len(), depth, Some(&focus)) };
    for cuts in pl {
        s.evaluations += 1;
        s.transitions += 1;
        // one decode = one call (a guard around the whole plan loop tripped the watchdog on 1 MiB frames with
        // pairs of cuts in the thorough tier: a false alarm of the first version)
        let _call = crate::report::enter(bytes);
        let got = std::panic::catch_unwind(|| {
            let mut r = CutReader::new(bytes, &cuts);
            decode(&mut r)
        });
        let ok = match (&got, want) {
            (Ok(Ok(g)), Ok(w)) => g == w,
            (Ok(Err(e)), Err(allowed)) => allowed.contains(e),
            _ => false,
        };
        if !ok {
            let class = match (&got, want) {
                (Err(_), _) => "decoder panicked".to_string(),
                (Ok(Ok(_)), Ok(_)) => "decoded frame differs from the encoded one".to_string(),
                (Ok(Ok(_)), Err(a)) => format!("decoder accepted input that must fail with {:?}", a),
                (Ok(Err(e)), Ok(_)) => format!("decoder failed ({:?}) on a complete valid frame", e),
                (Ok(Err(e)), Err(a)) => format!("wrong error {:?}, expected one of {:?}", e, a),
            };
            s.violation(format!("decode[{}]: {}", label, class), || {
                json!({"bytes_head": crate::report::show(&bytes[..bytes.len().min(24)]), "len": bytes.len(), "cuts": cuts,
                       "expected": format!("{:?}", want).chars().take(200).collect::<String>(),
                       "got": format!("{:?}", got.as_ref().map(|r| r.as_ref().map(|f| (f.fin, f.rsv, f.opcode, f.mask, f.length, f.masking_key, f.payload.len())))).chars().take(200).collect::<String>()})
            });
        }
    }
}

fn roundtrip_family(st: &mut Stats, lens: &[usize], keys: &[[u8; 4]], depth: Depth) {
    let mut cases = vec![];
    for &len in lens {
        // full header product for short frames; for long ones a reduced product (the header bits
        // and the length form are independent of each other in the byte layout)
        let big = len > 1024;
        for fin in [false, true] {
            for rsv in 0..8u8 {
                if big && !(rsv == 0 || rsv == 5) {
                    continue;
                }
                for &op in &OPCODES {
                    if big && !(op == 2 || op == 0) {
                        continue;
                    }
                    cases.push((len, fin, rsv, op, None));
                    for (ki, &k) in keys.iter().enumerate() {
                        if big && ki != 2 {
                            continue;
                        }
                        cases.push((len, fin, rsv, op, Some(k)));
                    }
                }
            }
        }
    }
    let part = cases
        .par_iter()
        .map(|&(len, fin, rsvb, op, key)| {
            let mut s = Stats::default();
            let rsv = [rsvb & 4 != 0, rsvb & 2 != 0, rsvb & 1 != 0];
            let payload = pattern(len);
            let mask = key.is_some();
            let k = key.unwrap_or([0; 4]);
            let parts = FrameParts { fin, rsv, opcode: op, mask, length: len as u64, masking_key: k, payload: payload.clone() };
            let want = ref_encode(fin, rsv, op, mask, k, &payload);
            s.states += 1;
            if len >= 126 || mask {
                s.nontrivial += 1;
            }
            let got = std::panic::catch_unwind(|| encode(parts.clone()));
            s.evaluations += 1;
            s.transitions += 1;
            match got {
                Ok(Ok(g)) if g == want => {
                    s.outcome("encode-ok");
                    check_decode(&mut s, &g, &Ok(parts.clone()), "roundtrip", depth);
                }
                Ok(Ok(g)) => {
                    let class = if g.len() != want.len() {
                        "wrong length form / size"
                    } else if mask && g[..want.len() - len] == want[..want.len() - len] {
                        "masked frame: payload not masked with the key"
                    } else {
                        "wrong header bytes"
                    };
                    s.violation(format!("encode: {}", class), || {
                        json!({"fin": fin, "rsv": rsv, "opcode": op, "mask": mask, "key": k, "payload_len": len,
                               "expected_head": crate::report::show(&want[..want.len().min(20)]), "got_head": crate::report::show(&g[..g.len().min(20)])})
                    });
                    // the decoder is still checked against reference bytes
                    check_decode(&mut s, &want, &Ok(parts.clone()), "reference-bytes", depth);
                }
                Ok(Err(e)) => s.violation(format!("encode: error {:?}", e), || json!({"opcode": op})),
                Err(_) => s.violation("encode: panicked", || json!({"opcode": op, "len": len})),
            }
            if s.evaluations % 5000 < 30 {
                s.sample(|| json!({"family": "roundtrip", "fin": fin, "rsv": rsv, "opcode": op, "mask": mask, "payload_len": len, "wire_head": crate::report::show(&want[..want.len().min(16)])}));
            }
            s
        })
        .reduce(Stats::default, |mut a, b| {
            a.merge(b);
            a
        });
    st.merge(part);
}

fn all_headers(st: &mut Stats) {
    let part = (0u32..65536)
        .into_par_iter()
        .map(|h| {
            let mut s = Stats::default();
            let (b0, b1) = ((h >> 8) as u8, (h & 0xff) as u8);
            let op = b0 & 0xf;
            let valid_op = OPCODES.contains(&op);
            let mask = b1 & 0x80 != 0;
            let len7 = (b1 & 0x7f) as usize;
            let key = [0x11, 0x22, 0x33, 0x44];
            // complete frame: 126/127 forms announce an extended length equal to 3 / 2 bytes
            let (ext, plen): (Vec<u8>, usize) = match len7 {
                126 => (vec![0, 3], 3),
                127 => (vec![0, 0, 0, 0, 0, 0, 0, 2], 2),
                n => (vec![], n),
            };
            let payload = pattern(plen);
            let mut full = vec![b0, b1];
            full.extend(&ext);
            if mask {
                full.extend(key);
                full.extend(payload.iter().enumerate().map(|(i, x)| x ^ key[i % 4]));
            } else {
                full.extend(&payload);
            }
            let rsv = [b0 & 0x40 != 0, b0 & 0x20 != 0, b0 & 0x10 != 0];
            let parts = FrameParts { fin: b0 & 0x80 != 0, rsv, opcode: op, mask, length: plen as u64, masking_key: if mask { key } else { [0; 4] }, payload };
            s.states += 1;
            if valid_op {
                s.nontrivial += 1;
            }
            let want_full: Result<FrameParts, Vec<WebsocketError>> = if valid_op { Ok(parts) } else { Err(vec![WebsocketError::InvalidOpcode]) };
            check_decode(&mut s, &full, &want_full, "all-headers-complete", Depth::Single);
            // one byte short, and header only
            let trunc_err = || if valid_op { vec![WebsocketError::ReadError] } else { vec![WebsocketError::InvalidOpcode, WebsocketError::ReadError] };
            if full.len() > 2 {
                check_decode(&mut s, &full[..full.len() - 1], &Err(trunc_err()), "all-headers-one-short", Depth::Single);
                check_decode(&mut s, &full[..2], &Err(trunc_err()), "all-headers-header-only", Depth::Single);
            }
            check_decode(&mut s, &full[..1], &Err(vec![WebsocketError::ReadError]), "one-byte", Depth::Single);
            s.outcome(if valid_op { "valid-opcode" } else { "reserved-opcode" });
            s
        })
        .reduce(Stats::default, |mut a, b| {
            a.merge(b);
            a
        });
    st.merge(part);
}

fn truncations(st: &mut Stats) {
    let mut seeds: Vec<Vec<u8>> = vec![];
    for (len, mask) in [(0usize, false), (5, false), (5, true), (125, true), (126, false), (126, true), (300, true), (65535, true), (65536, false), (65536, true), (1, true), (2, false)] {
        seeds.push(ref_encode(true, [false; 3], 2, mask, [9, 8, 7, 6], &pattern(len)));
    }
    let part = seeds
        .par_iter()
        .map(|sd| {
            let mut s = Stats::default();
            // every truncation for the first 20 bytes and the last 3; a spread in between
            let mut cuts: Vec<usize> = (0..sd.len().min(20)).collect();
            for d in 1..=3 {
                if sd.len() > d {
                    cuts.push(sd.len() - d);
                }
            }
            let mut x = 20;
            while x < sd.len() {
                cuts.push(x);
                x = x * 2 + 1;
            }
            cuts.sort();
            cuts.dedup();
            for c in cuts {
                s.states += 1;
                s.nontrivial += 1;
                check_decode(&mut s, &sd[..c], &Err(vec![WebsocketError::ReadError]), "truncation", Depth::Single);
            }
            s
        })
        .reduce(Stats::default, |mut a, b| {
            a.merge(b);
            a
        });
    st.merge(part);
}

/// Extended length fields that claim more than follows: every single bit of the 16-bit and of the 64-bit length
/// field, alone and together with a small low part n, followed by exactly n payload bytes and then the end of the
/// input. Such a frame is truncated whatever the decoder makes of the high bits (ignoring, masking or
/// narrowing them would turn it into a complete n-byte frame).
fn claimed_lengths(st: &mut Stats) {
    let mut s = Stats::default();
    for (form, bits) in [(126u8, 16u32), (127u8, 64u32)] {
        for b in 0..bits {
            for n in [0u64, 1, 5, 125] {
                let claimed: u64 = (1u64 << b) | n;
                if claimed <= n {
                    continue;
                }
                for mask in [false, true] {
                    let mut bytes = vec![0x82u8, form | if mask { 0x80 } else { 0 }];
                    if form == 126 {
                        bytes.extend_from_slice(&(claimed as u16).to_be_bytes());
                    } else {
                        bytes.extend_from_slice(&claimed.to_be_bytes());
                    }
                    if mask {
                        bytes.extend_from_slice(&[1, 2, 3, 4]);
                    }
                    bytes.extend_from_slice(&pattern(n as usize));
                    s.states += 1;
                    s.nontrivial += 1;
                    // the most significant bit of the 64-bit form must be 0 (RFC 6455 5.2): a decoder may refuse it
                    // for that reason instead, so any error is accepted there
                    let want = if b == 63 { vec![WebsocketError::ReadError, WebsocketError::InvalidOpcode, WebsocketError::ConnectionClosed] } else { vec![WebsocketError::ReadError] };
                    check_decode(&mut s, &bytes, &Err(want), "claimed-length-exceeds-input", Depth::Single);
                }
            }
        }
    }
    st.merge(s);
}

fn messages(st: &mut Stats, lens: &[usize]) {
    let mut s = Stats::default();
    for &len in lens {
        // text: valid UTF-8; binary: pattern (contains invalid UTF-8)
        let text: Vec<u8> = (0..len).map(|i| b'a' + (i % 26) as u8).collect();
        let bin = pattern(len.max(1));
        for (label, payload, op, m) in [
            ("Message::new(text)", text.clone(), 1u8, Message::new(&text)),
            ("Message::new_binary(text bytes)", text.clone(), 2u8, Message::new_binary(&text)),
            ("Message::new_binary(bytes)", bin.clone(), 2u8, Message::new_binary(&bin)),
        ] {
            s.evaluations += 1;
            s.states += 1;
            s.transitions += 1;
            s.nontrivial += 1;
            let Ok(got) = std::panic::catch_unwind(std::panic::AssertUnwindSafe(|| m.to_frame())) else {
                s.violation(format!("Message::to_frame panicked for {}", label), || json!({"len": payload.len()}));
                continue;
            };
            let want = ref_encode(true, [false; 3], op, false, [0; 4], &payload);
            if got != want {
                s.violation(format!("Message::to_frame: wrong bytes for {}", label), || json!({"len": payload.len(), "got_head": crate::report::show(&got[..got.len().min(16)]), "want_head": crate::report::show(&want[..want.len().min(16)])}));
            }
        }
    }
    st.merge(s);
}

pub fn run(mut cx: Ctx) -> ! {
    cx.rule = "every frame of the product FIN x RSV x opcode x mask/key x length class is encoded by the real encoder, compared byte-for-byte with a reference RFC 6455 encoder, and decoded by the real decoder under every read plan (whole, bytewise, every single cut in the first 16 and last 2 bytes; pairs of cuts in thorough); all 65536 two-byte headers are completed / truncated and decoded; states = distinct frames or inputs, transitions = codec calls; non-trivial = masked or extended-length frames, valid-opcode headers, truncations".into();
    let quick = cx.quick();
    let lens: Vec<usize> = if quick {
        vec![0, 1, 2, 3, 4, 5, 124, 125, 126, 127, 128, 255, 256, 4095, 4096, 4097, 8192, 65534, 65535, 65536, 65537, 131072]
    } else {
        vec![0, 1, 2, 3, 4, 5, 6, 7, 8, 9, 124, 125, 126, 127, 128, 255, 256, 4090, 4095, 4096, 4097, 8191, 8192, 8193, 65534, 65535, 65536, 65537, 131072, 1 << 20, (1 << 22) + 3]
    };
    let keys: Vec<[u8; 4]> = if quick {
        vec![[0; 4], [0xff; 4], [1, 2, 3, 4], [0x80, 0, 0, 1], [0, 0, 0, 1], [0xaa, 0x55, 0xaa, 0x55], [0x7e, 0x7f, 0x80, 0x81]]
    } else {
        vec![[0; 4], [0xff; 4], [1, 2, 3, 4], [0x80, 0, 0, 1], [0, 0, 0, 1], [0xaa, 0x55, 0xaa, 0x55], [0x7e, 0x7f, 0x80, 0x81], [1, 0, 0, 0], [0, 1, 0, 0], [0, 0, 1, 0], [0x12, 0x34, 0x56, 0x78], [0xde, 0xad, 0xbe, 0xef]]
    };
    cx.bound("payload_lengths", json!(lens));
    cx.bound("mask_keys", keys.len());
    let mut st = Stats::default();
    roundtrip_family(&mut st, &lens, &keys, Depth::Pairs);
    all_headers(&mut st);
    truncations(&mut st);
    claimed_lengths(&mut st);
    messages(&mut st, &lens);
    cx.stats.merge(st);
    cx.assume("payload contents: one position-dependent pattern per length (all 256 byte values occur); arbitrary contents beyond that are not enumerated");
    cx.finish()
}
