//! C03 — no input can crash, wedge or exhaust a parser. Bounded-exhaustive input families run in
//! isolated worker processes under a counting allocator (DESIGN.md §2.4, §3 C03).

use crate::alloc;
use crate::plans::CutReader;
use crate::props::c10::ref_encode;
use crate::report::{show, Ctx, Stats};
use humphrey::http::{Request, Response};
use humphrey::stream::Stream;
use humphrey::verif::net::{ScriptSock, Step, TcpStream};
use humphrey_json::Value;
use humphrey_server::config::tree::parse_conf;
use humphrey_ws::WebsocketStream;
use serde_json::json;
use std::cell::RefCell;
use std::sync::{Arc, Mutex};

pub const PARSERS: [&str; 6] = ["http-request", "http-response", "ws-frame", "ws-message", "json", "config"];

thread_local! {
    pub static LAST_PANIC: RefCell<String> = RefCell::new(String::new());
}

pub fn install_panic_recorder() {
    std::panic::set_hook(Box::new(|info| {
        let loc = info.location().map(|l| format!("{}:{}", l.file(), l.line())).unwrap_or_default();
        let msg = if let Some(s) = info.payload().downcast_ref::<&str>() {
            s.to_string()
        } else if let Some(s) = info.payload().downcast_ref::<String>() {
            s.clone()
        } else {
            String::new()
        };
        LAST_PANIC.with(|p| *p.borrow_mut() = format!("{} @ {}", msg, loc));
    }));
}

// ---------------- input families ----------------

fn words_sym(alpha: &[&[u8]], max: usize) -> Vec<Vec<u8>> {
    let mut out: Vec<Vec<u8>> = vec![vec![]];
    let mut start = 0;
    for _ in 0..max {
        let end = out.len();
        for i in start..end {
            for a in alpha {
                let mut w = out[i].clone();
                w.extend_from_slice(a);
                out.push(w);
            }
        }
        start = end;
    }
    out
}

fn edits(seed: &[u8], alpha: &[&[u8]], out: &mut Vec<(String, Vec<u8>)>, name: &str) {
    for i in 0..=seed.len() {
        out.push((format!("{}:prefix", name), seed[..i].to_vec()));
    }
    for i in 0..seed.len() {
        let mut d = seed.to_vec();
        d.remove(i);
        out.push((format!("{}:delete", name), d));
        let mut d = seed.to_vec();
        d.insert(i, seed[i]);
        out.push((format!("{}:duplicate", name), d));
        for a in alpha {
            let mut d = seed[..i].to_vec();
            d.extend_from_slice(a);
            d.extend_from_slice(&seed[i + 1..]);
            out.push((format!("{}:replace", name), d));
        }
    }
    // multi-byte characters and invalid UTF-8 at every position
    for i in 0..=seed.len() {
        for ins in ["é".as_bytes(), "𝄞".as_bytes(), &[0xff][..], &[0xc3][..]] {
            let mut d = seed[..i].to_vec();
            d.extend_from_slice(ins);
            d.extend_from_slice(&seed[i..]);
            out.push((format!("{}:insert-multibyte", name), d));
        }
    }
}

const HUGE: [&str; 14] = ["0", "1", "2147483647", "2147483648", "4294967296", "9223372036854775807", "9223372036854775808", "18446744073709551615", "18446744073709551616", "100000000000000", "-1", "+5", "0x10", "99999999999999999999999999"];

fn replace_once(seed: &str, from: &str, to: &str) -> Vec<u8> {
    seed.replacen(from, to, 1).into_bytes()
}

pub fn cases(parser: &str, quick: bool) -> Vec<(String, Vec<u8>)> {
    let mut v: Vec<(String, Vec<u8>)> = vec![];
    // 10^7 strings for the wire parsers in thorough; the configuration family multiplies every string by its
    // placements (section, value, host, route, include), so it stays at 6
    let l = if quick { if parser == "config" { 5 } else { 6 } } else if parser == "config" { 6 } else { 7 };
    match parser {
        "http-request" | "http-response" => {
            let alpha: Vec<&[u8]> = vec![b"G", b"/", b" ", b":", b"\r", b"\n", b"1", "é".as_bytes(), &[0xff], b"H"];
            for w in words_sym(&alpha, l) {
                v.push(("short-strings".into(), w));
            }
            let seeds: Vec<&str> = if parser == "http-request" {
                vec![
                    "GET / HTTP/1.1\r\nHost: a\r\n\r\n",
                    "POST /p?q=1 HTTP/1.1\r\nContent-Length: 5\r\nX-A: é\r\n\r\nhello",
                    "OPTIONS * HTTP/1.0\r\n\r\n",
                    "GET /a HTTP/1.1\r\nCookie: a=1; b=2\r\nX-Forwarded-For: 1.2.3.4, ::1\r\nConnection: keep-alive\r\n\r\n",
                    "PUT /x HTTP/1.1\r\nContent-Length: 0\r\n\r\n",
                ]
            } else {
                vec![
                    "HTTP/1.1 200 OK\r\nContent-Length: 5\r\n\r\nhello",
                    "HTTP/1.1 200 OK\r\nTransfer-Encoding: chunked\r\n\r\n5\r\nhello\r\n0\r\n\r\n",
                    "HTTP/1.1 404 Not Found\r\n\r\n",
                    "HTTP/1.0 301 Moved Permanently\r\nLocation: /é\r\nSet-Cookie: a=b\r\n\r\n",
                    "HTTP/1.1 200 OK\r\nTransfer-Encoding: chunked\r\nX: y\r\n\r\nA\r\n0123456789\r\n1\r\nz\r\n0\r\n\r\n",
                ]
            };
            for (si, s) in seeds.iter().enumerate() {
                edits(s.as_bytes(), &alpha, &mut v, &format!("seed{}", si));
                for h in HUGE {
                    v.push(("length-field:content-length".into(), replace_once(s, "Content-Length: 5", &format!("Content-Length: {}", h))));
                    v.push(("length-field:content-length".into(), replace_once(s, "Content-Length: 0", &format!("Content-Length: {}", h))));
                    if parser == "http-response" {
                        v.push(("length-field:chunk-size".into(), replace_once(s, "\r\n\r\n5\r\n", &format!("\r\n\r\n{}\r\n", h))));
                        v.push(("length-field:chunk-size".into(), replace_once(s, "\r\n\r\nA\r\n", &format!("\r\n\r\n{}\r\n", h.trim_start_matches("0x")))));
                        for hx in ["7fffffff", "ffffffff", "7fffffffffffffff", "ffffffffffffffff", "10000000000000000", "5af3107a4000"] {
                            v.push(("length-field:chunk-size".into(), replace_once(s, "\r\n\r\n5\r\n", &format!("\r\n\r\n{}\r\n", hx))));
                        }
                    }
                }
                // a header line without CRLF / with LF only, a non-ASCII character right before the LF
                v.push(("line-endings".into(), s.replace("\r\n", "\n").into_bytes()));
                v.push(("line-endings".into(), s.replacen("\r\n", "é\n", 2).into_bytes()));
            }
            // many / long header lines
            let mut big = b"GET / HTTP/1.1\r\n".to_vec();
            if parser == "http-response" {
                big = b"HTTP/1.1 200 OK\r\n".to_vec();
            }
            let mut b2 = big.clone();
            for i in 0..2000 {
                b2.extend(format!("X-{}: v\r\n", i).bytes());
            }
            b2.extend(b"\r\n");
            v.push(("many-headers".into(), b2));
            let mut b3 = big.clone();
            b3.extend(b"X-Long: ");
            b3.extend(std::iter::repeat(b'a').take(200_000));
            v.push(("long-line-unterminated".into(), b3));
        }
        "ws-frame" | "ws-message" => {
            let alpha: Vec<&[u8]> = vec![&[0x00], &[0x01], &[0x81], &[0x88], &[0x89], &[0x7e], &[0x7f], &[0xfe], &[0xff], &[0x05]];
            for w in words_sym(&alpha, l) {
                v.push(("short-strings".into(), w));
            }
            let seeds: Vec<Vec<u8>> = vec![
                ref_encode(true, [false; 3], 1, true, [1, 2, 3, 4], b"hello"),
                ref_encode(true, [false; 3], 2, false, [0; 4], b"xy"),
                ref_encode(false, [false; 3], 1, true, [9, 9, 9, 9], b"frag"),
                ref_encode(true, [false; 3], 9, true, [1, 1, 1, 1], b"p"),
                ref_encode(true, [false; 3], 8, true, [1, 1, 1, 1], &[3, 232]),
                ref_encode(true, [false; 3], 2, true, [5, 6, 7, 8], &vec![7u8; 126]),
                ref_encode(true, [false; 3], 2, false, [0; 4], &vec![7u8; 300]),
            ];
            for (si, s) in seeds.iter().enumerate() {
                edits(s, &alpha, &mut v, &format!("seed{}", si));
            }
            // length fields: 16-bit and 64-bit extended lengths at boundary and huge values
            for mask in [0u8, 0x80] {
                for ext in [0u16, 1, 125, 126, 65535] {
                    let mut f = vec![0x82, mask | 126];
                    f.extend(ext.to_be_bytes());
                    f.extend([1, 2, 3, 4, 5, 6]);
                    v.push(("length-field:16bit".into(), f));
                }
                for ext in [0u64, 1, 65536, 1 << 31, (1 << 31) - 1, 1 << 32, 100_000_000_000_000, i64::MAX as u64, 1 << 63, u64::MAX] {
                    let mut f = vec![0x82, mask | 127];
                    f.extend(ext.to_be_bytes());
                    f.extend([1, 2, 3, 4, 5, 6]);
                    v.push(("length-field:64bit".into(), f));
                    // the same after a first, valid, non-final fragment
                    let mut cont = vec![0x80, mask | 127];
                    cont.extend(ext.to_be_bytes());
                    let mut g2 = ref_encode(false, [false; 3], 1, true, [1, 2, 3, 4], b"a");
                    g2.extend(cont);
                    v.push(("length-field:64bit-continuation".into(), g2));
                }
            }
            // unbounded fragmentation: many tiny non-final fragments
            let mut many = vec![];
            for _ in 0..20_000 {
                many.extend(ref_encode(false, [false; 3], 0, false, [0; 4], b"z"));
            }
            let mut m2 = ref_encode(false, [false; 3], 1, false, [0; 4], b"a");
            m2.extend(many);
            v.push(("many-fragments".into(), m2));
        }
        "json" => {
            let toks: Vec<&[u8]> = vec![b"{", b"}", b"[", b"]", b":", b",", b"\"", b"\\", b"0", b"1", b"-", b"e", b".", b" ", b"true", b"null", "é".as_bytes(), b"u"];
            for w in words_sym(&toks, if quick { 4 } else { 5 }) {
                v.push(("short-strings".into(), w));
            }
            for (si, s) in crate::props::c13_seeds().iter().enumerate() {
                edits(s.as_bytes(), &toks, &mut v, &format!("seed{}", si));
            }
            for d in [255usize, 256, 257, 1000, 100_000] {
                v.push(("nesting".into(), "[".repeat(d).into_bytes()));
                v.push(("nesting".into(), format!("{}{}", "[".repeat(d), "]".repeat(d)).into_bytes()));
                v.push(("nesting".into(), "{\"a\":".repeat(d).into_bytes()));
                v.push(("nesting".into(), format!("{}1{}", "{\"a\":".repeat(d), "}".repeat(d)).into_bytes()));
            }
            v.push(("long-string".into(), format!("\"{}\"", "\\u00e9".repeat(50_000)).into_bytes()));
            v.push(("long-number".into(), "9".repeat(100_000).into_bytes()));
            v.push(("long-number".into(), format!("1e{}", "9".repeat(1000)).into_bytes()));
        }
        "config" => {
            let alpha: Vec<&[u8]> = vec![b"{", b"}", b"\"", b" ", b"\n", b"#", b"1", b"K", "é".as_bytes(), b"a"];
            for w in words_sym(&alpha, l) {
                v.push(("short-strings".into(), w.clone()));
                let mut p = b"server {\n".to_vec();
                p.extend(&w);
                v.push(("short-strings-in-server".into(), p));
                if w.len() <= 4 {
                    let mut p = b"server {\n  cache {\n    size ".to_vec();
                    p.extend(&w);
                    p.extend(b"\n  }\n}");
                    v.push(("short-strings-as-value".into(), p));
                    // the same strings as the name of a host / route / plain section and as an include target
                    for kw in ["host ", "route ", "", "include "] {
                        let mut p = format!("server {{\n  {}", kw).into_bytes();
                        p.extend(&w);
                        p.extend(if kw == "include " { &b"\n}"[..] } else { &b" {\n  }\n}"[..] });
                        v.push(("short-strings-as-section-name".into(), p));
                    }
                }
            }
            let seeds = [
                "server {\n  address \"0.0.0.0\"\n  port 80\n  threads 32\n\n  route /* {\n    directory \"/var/www\"\n  }\n}",
                "server {\n  # comment\n  cache {\n    size 128M # trailing\n    time 60\n  }\n  host \"a.test\" {\n    route /, /x* {\n      proxy \"127.0.0.1:8000,127.0.0.1:8080\"\n      load_balancer_mode \"round-robin\"\n    }\n  }\n  blacklist {\n    mode \"block\"\n  }\n}",
                "server {\n  websocket \"localhost:1234\"\n  log {\n    level \"info\"\n    console true\n  }\n  plugins {\n    php {\n      library \"x.so\"\n    }\n  }\n}",
            ];
            for (si, s) in seeds.iter().enumerate() {
                edits(s.as_bytes(), &alpha, &mut v, &format!("seed{}", si));
            }
            for sz in ["5é", "é", "9999999999999999G", "9223372036854775807K", "-9223372036854775808M", "1GG", "G", "-K", "0x1K", "1 K", "99999999999999999999"] {
                v.push(("size-values".into(), format!("server {{\n  cache {{\n    size {}\n  }}\n}}", sz).into_bytes()));
            }
            for d in [10usize, 1000, 100_000] {
                v.push(("nesting".into(), format!("server {{\n{}", "a {\n".repeat(d)).into_bytes()));
                v.push(("nesting".into(), format!("server {{\n{}{}}}", "a {\n".repeat(d), "}\n".repeat(d)).into_bytes()));
                v.push(("nesting".into(), format!("server {{\n{}", "route /a {\n".repeat(d)).into_bytes()));
                v.push(("nesting".into(), format!("server {{\n{}", "host x {\n".repeat(d)).into_bytes()));
                v.push(("nesting".into(), format!("server {{\n{}", "host \"x\" {\nroute /a {\na {\n".repeat(d / 3 + 1)).into_bytes()));
            }
            // a file that includes itself, and two files that include each other
            {
                let dir = crate::report::root().join(".target").join("scratch");
                let _ = std::fs::create_dir_all(&dir);
                let (a, b, c) = (dir.join("c03-self.conf"), dir.join("c03-ping.conf"), dir.join("c03-pong.conf"));
                let _ = std::fs::write(&a, format!("include \"{}\"\n", a.display()));
                let _ = std::fs::write(&b, format!("x {{\ninclude \"{}\"\n}}\n", c.display()));
                let _ = std::fs::write(&c, format!("include \"{}\"\n", b.display()));
                v.push(("include-cycle".into(), format!("server {{\n  include \"{}\"\n}}", a.display()).into_bytes()));
                v.push(("include-cycle".into(), format!("server {{\n  include \"{}\"\n}}", b.display()).into_bytes()));
            }
            v.push(("long-line".into(), format!("server {{\n  k \"{}\"\n}}", "v".repeat(300_000)).into_bytes()));
        }
        _ => {}
    }
    v
}

// ---------------- one case ----------------

#[derive(Debug, PartialEq)]
enum Verdict {
    Returned,
    Panicked(String),
}

fn run_parser(parser: &str, input: &[u8], bytewise: bool) -> Verdict {
    let cuts: Vec<usize> = if bytewise { (1..input.len()).collect() } else { vec![] };
    let r = std::panic::catch_unwind(|| match parser {
        "http-request" => {
            let mut rd = CutReader::new(input, &cuts);
            let _ = Request::from_stream(&mut rd, "127.0.0.1:1".parse().unwrap());
        }
        "http-response" => {
            let mut rd = CutReader::new(input, &cuts);
            let _ = Response::from_stream(&mut rd);
        }
        "ws-frame" => {
            let mut rd = CutReader::new(input, &cuts);
            let _ = humphrey_ws::verif::decode(&mut rd);
        }
        "ws-message" => {
            let steps: Vec<Step> = if bytewise { input.iter().map(|b| Step::Seg(vec![*b])).collect() } else { vec![Step::Seg(input.to_vec())] };
            for nb in [false, true] {
                let sock = ScriptSock::new("127.0.0.1:1".parse().unwrap(), steps.clone());
                let mut ws = WebsocketStream::new(Stream::Tcp(TcpStream::Script(sock)));
                for _ in 0..4 {
                    if nb {
                        let _ = ws.recv_nonblocking();
                    } else if ws.recv().is_err() {
                        break;
                    }
                }
            }
        }
        "json" => {
            if let Ok(s) = std::str::from_utf8(input) {
                let _ = Value::parse(s);
            }
        }
        "config" => {
            if let Ok(s) = std::str::from_utf8(input) {
                let _ = parse_conf(s, "verif.conf");
            }
        }
        _ => {}
    });
    match r {
        Ok(()) => Verdict::Returned,
        Err(_) => Verdict::Panicked(LAST_PANIC.with(|p| p.borrow().clone())),
    }
}

pub const SOFT_FACTOR: usize = 64;
pub const SOFT_CONST: usize = 1 << 20;

fn check_case(s: &mut Stats, parser: &str, fam: &str, input: &[u8], progress: *mut u64, idx: u64) {
    for bytewise in [false, true] {
        if bytewise && (input.len() > 5000 || matches!(parser, "json" | "config")) {
            continue;
        }
        unsafe {
            std::ptr::write_volatile(progress, idx * 2 + bytewise as u64);
        }
        s.evaluations += 1;
        s.transitions += 1;
        let budget = SOFT_FACTOR * input.len() + SOFT_CONST;
        alloc::start(budget * 16 + (64 << 20));
        let v = run_parser(parser, input, bytewise);
        let peak = alloc::stop();
        let ctx = |what: String| json!({"parser": parser, "family": fam, "what": what, "delivery": if bytewise { "bytewise" } else { "whole" }, "input_len": input.len(), "input_head": show(&input[..input.len().min(120)])});
        match v {
            Verdict::Panicked(msg) => {
                let class = if msg.contains("reads at end of input") || msg.contains("reads after end of stream") {
                    format!("[{}] does not terminate: keeps reading after the end of the input", parser)
                } else {
                    // group by source file of the panic, not by line (lines move)
                    let file = msg.rsplit(" @ ").next().unwrap_or("").rsplit('/').next().unwrap_or("").split(':').next().unwrap_or("").to_string();
                    let kind = if msg.contains("char boundary") {
                        "slices inside a multi-byte character"
                    } else if msg.contains("overflow") {
                        "arithmetic overflow"
                    } else if msg.contains("index out of bounds") || msg.contains("out of range") {
                        "index out of range"
                    } else {
                        "panic"
                    };
                    format!("[{}] panics ({}, in {})", parser, kind, file)
                };
                s.violation(class, || ctx(msg.clone()));
            }
            Verdict::Returned => {
                if peak > budget {
                    s.violation(format!("[{}] allocates far more than a constant multiple of the bytes supplied", parser), || ctx(format!("peak {} live bytes for {} input bytes (bound {})", peak, input.len(), budget)));
                } else {
                    s.outcome(format!("{}: returned", parser));
                }
            }
        }
    }
    s.states += 1;
    if fam != "short-strings" {
        s.nontrivial += 1;
    }
}

// ---------------- worker process ----------------

pub fn worker(args: &[String]) -> ! {
    // hvc C03-worker <parser> <start> <end> <progress-file> <tier>
    let parser = args[0].clone();
    let (start, end): (usize, usize) = (args[1].parse().unwrap(), args[2].parse().unwrap());
    let quick = args[4] != "thorough";
    install_panic_recorder();
    // shared progress record: [case index * 2 + delivery, offending allocation size]
    let f = std::fs::OpenOptions::new().read(true).write(true).open(&args[3]).expect("progress file");
    use std::os::unix::io::AsRawFd;
    let p = unsafe { libc::mmap(std::ptr::null_mut(), 16, libc::PROT_READ | libc::PROT_WRITE, libc::MAP_SHARED, f.as_raw_fd(), 0) };
    assert!(p != libc::MAP_FAILED);
    alloc::PROGRESS.store(p as usize, std::sync::atomic::Ordering::SeqCst);
    // "still starting": building the case list takes a while in the thorough tier, longer on a loaded machine;
    // the driver's no-progress watchdog must not take that for a hang of case 0
    unsafe { std::ptr::write_volatile((p as *mut u64).add(1), u64::MAX) };
    let list = cases(&parser, quick);
    unsafe { std::ptr::write_volatile((p as *mut u64).add(1), 0) };
    let mut s = Stats::default();
    for idx in start..end.min(list.len()) {
        let (fam, input) = &list[idx];
        check_case(&mut s, &parser, fam, input, p as *mut u64, idx as u64);
        if idx % 50_000 == 17 {
            s.sample(|| json!({"parser": parser, "family": fam, "input": show(&input[..input.len().min(80)])}));
        }
    }
    println!("RESULT {}", s.to_json());
    std::process::exit(0);
}

// ---------------- driver ----------------

fn spawn_worker(parser: &str, start: usize, end: usize, tier: &str, scratch: &std::path::Path, slot: usize) -> (std::process::Output, u64, u64) {
    let pf = scratch.join(format!("progress-{}-{}", std::process::id(), slot));
    std::fs::write(&pf, [0u8; 16]).expect("scratch writable");
    let exe = std::env::current_exe().unwrap();
    let child = std::process::Command::new(exe)
        .args(["C03-worker", parser, &start.to_string(), &end.to_string(), pf.to_str().unwrap(), tier])
        .stdout(std::process::Stdio::piped())
        .stderr(std::process::Stdio::piped())
        .spawn()
        .expect("spawn worker");
    // watchdog: kill a worker whose progress record does not move for 20 s
    let pid = child.id();
    let done = Arc::new(Mutex::new(false));
    let (d2, pf2) = (done.clone(), pf.clone());
    let wd = std::thread::spawn(move || {
        let mut last = (u64::MAX, std::time::Instant::now());
        loop {
            std::thread::sleep(std::time::Duration::from_millis(250));
            if *d2.lock().unwrap() {
                return false;
            }
            let rec = std::fs::read(&pf2).unwrap_or_default();
            let cur = rec.get(..8).map(|b| u64::from_le_bytes(b.try_into().unwrap())).unwrap_or(0);
            let starting = rec.get(8..16).map(|b| u64::from_le_bytes(b.try_into().unwrap())) == Some(u64::MAX);
            if cur != last.0 {
                last = (cur, std::time::Instant::now());
            } else if last.1.elapsed().as_secs() >= if starting { 1800 } else { 20 } {
                unsafe {
                    libc::kill(pid as i32, libc::SIGKILL);
                }
                return true;
            }
        }
    });
    let out = child.wait_with_output().expect("wait worker");
    *done.lock().unwrap() = true;
    let hung = wd.join().unwrap_or(false);
    let rec = std::fs::read(&pf).unwrap_or_else(|_| vec![0; 16]);
    let _ = std::fs::remove_file(&pf);
    let at = u64::from_le_bytes(rec[..8].try_into().unwrap());
    let size = u64::from_le_bytes(rec[8..16].try_into().unwrap());
    (out, if hung { at | (1 << 63) } else { at }, size)
}

fn drive_range(parser: &str, mut start: usize, end: usize, tier: &str, list: &[(String, Vec<u8>)], scratch: &std::path::Path, slot: usize) -> Stats {
    let mut total = Stats::default();
    let mut deaths = 0;
    let mut hangs = 0;
    while start < end {
        let (out, at_raw, size) = spawn_worker(parser, start, end, tier, scratch, slot);
        let hung = at_raw >> 63 == 1;
        let at = at_raw & !(1 << 63);
        let text = String::from_utf8_lossy(&out.stdout).to_string();
        if out.status.success() {
            if let Some(l) = text.lines().find(|l| l.starts_with("RESULT ")) {
                total.merge(Stats::from_json(&serde_json::from_str(&l[7..]).expect("worker JSON")));
                return total;
            }
            eprintln!("MACHINERY: worker for {} [{}..{}) exited 0 without a result", parser, start, end);
            std::process::exit(3);
        }
        // the worker died on case `idx`: that is a verdict about the parser, not about the machinery
        deaths += 1;
        let idx = (at / 2) as usize;
        let bytewise = at % 2 == 1;
        if idx < start || idx >= end {
            eprintln!("MACHINERY: worker for {} died outside its range (record {}, range {}..{}): {}", parser, idx, start, end, String::from_utf8_lossy(&out.stderr));
            std::process::exit(3);
        }
        let (fam, input) = &list[idx];
        use std::os::unix::process::ExitStatusExt;
        let stderr = String::from_utf8_lossy(&out.stderr).to_string();
        let class = if hung {
            format!("[{}] hangs (no progress for 20 s)", parser)
        } else if out.status.code() == Some(77) {
            format!("[{}] allocates a length the input merely claims", parser)
        } else if out.status.signal() == Some(libc::SIGSEGV) || stderr.contains("stack overflow") {
            format!("[{}] overflows the stack", parser)
        } else if stderr.contains("memory allocation of") {
            format!("[{}] aborts the process: allocation of a claimed length failed", parser)
        } else {
            format!("[{}] kills the process ({:?})", parser, out.status)
        };
        total.violation(class, || {
            json!({"parser": parser, "family": fam, "delivery": if bytewise { "bytewise" } else { "whole" }, "input_len": input.len(), "input_head": show(&input[..input.len().min(120)]),
                   "allocation_request": size, "exit": format!("{:?}", out.status), "stderr_tail": stderr.chars().rev().take(200).collect::<String>().chars().rev().collect::<String>()})
        });
        total.evaluations += 1;
        // cases before idx ran fine in the dead worker but its counters are lost: run them again
        if idx > start {
            total.merge(drive_range(parser, start, idx, tier, list, scratch, slot));
        }
        start = idx + 1;
        if hung {
            hangs += 1;
        }
        if hangs >= 3 {
            // every hang costs 20 s of watchdog time: three are verdict enough for this range
            total.caps.push(format!("{}: 3 hangs in one range; remaining cases {}..{} skipped", parser, start, end));
            return total;
        }
        if deaths > 200 {
            total.caps.push(format!("{}: more than 200 process deaths in one range; remaining cases {}..{} skipped", parser, start, end));
            return total;
        }
    }
    total
}

pub fn run(mut cx: Ctx) -> ! {
    cx.rule = "per parser: every string of <=5 (6) symbols over a protocol-significant alphabet, every prefix of every seed message, every single-edit mutant (delete, duplicate, replace by each alphabet symbol), multi-byte and invalid UTF-8 inserted at every position, length fields replaced by boundary and huge values, deep nesting and very long lines; each delivered whole and byte-by-byte to the real parser inside an isolated worker process with a counting allocator; states = distinct inputs, transitions = parser calls; non-trivial = everything except the short-string family".into();
    let tier = if cx.quick() { "quick" } else { "thorough" };
    let scratch = crate::report::root().join(".target").join("scratch");
    std::fs::create_dir_all(&scratch).expect("scratch dir");
    let slots = std::thread::available_parallelism().map(|n| n.get()).unwrap_or(8);
    for parser in PARSERS {
        let list = cases(parser, cx.quick());
        let n = list.len();
        cx.stats.count(&format!("inputs[{}]", parser), n as u64);
        let chunk = (n + slots - 1) / slots;
        let parts: Vec<Stats> = std::thread::scope(|sc| {
            let hs: Vec<_> = (0..slots)
                .map(|k| {
                    let (list, scratch) = (&list, &scratch);
                    sc.spawn(move || {
                        let (a, b) = (k * chunk, ((k + 1) * chunk).min(n));
                        if a >= b {
                            Stats::default()
                        } else {
                            drive_range(parser, a, b, tier, list, scratch, k)
                        }
                    })
                })
                .collect();
            hs.into_iter().map(|h| h.join().unwrap()).collect()
        });
        for p in parts {
            cx.stats.merge(p);
        }
    }
    cx.bound("short_string_symbols", if cx.quick() { 6 } else { 7 });
    cx.bound("short_string_symbols_config", if cx.quick() { 5 } else { 6 });
    cx.bound("allocation_bound", format!("{} x input + {} bytes of live allocations", SOFT_FACTOR, SOFT_CONST));
    cx.assume("JSON and config parsers take &str: inputs that are not UTF-8 cannot be handed to them");
    cx.assume("random byte strings are not used: sampling is a different family");
    cx.finish()
}
