pub mod c05;
pub mod c08;
pub mod c13;
