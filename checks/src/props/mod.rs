pub mod c05;
pub mod c13;
