pub mod c05;
pub mod c08;
pub mod c10;
pub mod c11;
pub mod c12;
pub mod c13;
pub mod c18;
pub mod c20;
