pub mod c01;
pub mod c01_gen;
pub mod c02;
pub mod c02_gen;
pub mod c03;
pub mod c04;
pub mod c04_gen;
pub mod c05;
pub mod c06;
pub mod c06_gen;
pub mod c07;
pub mod c08;
pub mod c09;
pub mod c10;
pub mod c11;
pub mod c12;
pub mod c13;
pub mod c14;
pub mod c15;
pub mod c16;
pub mod c17;
pub mod c18;
pub mod c19;
pub mod c20;
pub mod c20_real;

pub fn c13_seeds() -> Vec<&'static str> {
    vec![
        "null", "true", "false", "0", "-0", "1.5e+3", "\"\"", "\"a\\nb\"", "[]", "{}", "[1,2]", "[[],{}]", "{\"a\":1}",
        "{\"a\":1,\"b\":[true,null]}", "{\"a\":{\"b\":{\"c\":\"d\"}}}", "[\"\\u00e9\",\"\\ud834\\udd1e\"]", "[-1E-2,0.5]",
        "{\"\":\"\"}", "{\"a\":1,\"a\":2}", "[1,[2,[3,[4]]]]",
    ]
}
