pub mod c05;
