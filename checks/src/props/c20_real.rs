//! C20, binding the simulated environment to reality (DESIGN.md §2.7): the traffic states explored
//! under the scheduler are replayed free-running — no runtime installed, facade in pass-through
//! mode, real threads and real loopback sockets — and must show the same outcome class: `run`
//! returns after the signal, the port can be bound again, nothing truncated.

use crate::props::c20::{parse_responses, Conn, BIG};
use crate::report::Stats;
use humphrey::http::{Request, Response, StatusCode};
use humphrey::stream::Stream;
use humphrey::verif::sync::mpsc::channel;
use humphrey::App;
use serde_json::json;
use std::io::{Read, Write};
use std::sync::{Arc, Mutex};
use std::time::{Duration, Instant};

fn free_port() -> u16 {
    std::net::TcpListener::bind("127.0.0.1:0").unwrap().local_addr().unwrap().port()
}

pub fn replay(p: usize, bind_ip: &str, conns: &[Conn]) -> Result<String, String> {
    let port = free_port();
    let bind = if bind_ip.contains(':') { format!("[{}]:{}", bind_ip, port) } else { format!("{}:{}", bind_ip, port) };
    let target = if bind_ip.contains(':') { format!("[::1]:{}", port) } else { format!("127.0.0.1:{}", port) };
    let (tx, rx) = channel::<()>();
    let (gate_tx, gate_rx) = std::sync::mpsc::channel::<()>();
    let gate_rx = Arc::new(Mutex::new(gate_rx));
    let g2 = gate_rx.clone();
    let entered = Arc::new(Mutex::new(Vec::<u16>::new()));
    let e2 = entered.clone();
    let app: App<()> = App::new_with_config(p, ())
        .with_shutdown(rx)
        .with_stateless_route("/", |_r: Request| Response::new(StatusCode::OK, b"0123456789abcdefghijklmnopqrstuvwxyz-body"))
        .with_stateless_route("/slow", move |r: Request| {
            e2.lock().unwrap().push(r.address.port);
            let _ = g2.lock().unwrap().recv();
            Response::new(StatusCode::OK, b"late")
        })
        .with_stateless_route("/big", |_r: Request| Response::new(StatusCode::OK, vec![b'B'; 32 * BIG]))
        .with_websocket_route("/ws", |_r: Request, mut stream: Stream, _s: Arc<()>| {
            let _ = stream.write_all(b"HTTP/1.1 101 Switching Protocols\r\n\r\n");
            let mut buf = [0u8; 16];
            while let Ok(n) = stream.read(&mut buf) {
                if n == 0 {
                    break;
                }
            }
        });
    let b2 = bind.clone();
    let returned = Arc::new(Mutex::new(None::<Instant>));
    let r2 = returned.clone();
    let server = std::thread::spawn(move || {
        let r = app.run(b2.as_str());
        *r2.lock().unwrap() = Some(Instant::now());
        r.is_ok()
    });
    // wait for the listener
    let t0 = Instant::now();
    while std::net::TcpStream::connect(&target).map(drop).is_err() {
        if t0.elapsed() > Duration::from_secs(5) {
            return Err("listener never came up".into());
        }
        std::thread::sleep(Duration::from_millis(5));
    }
    let received: Arc<Mutex<Vec<Vec<u8>>>> = Arc::new(Mutex::new(vec![vec![]; conns.len()]));
    let mut socks = vec![];
    let mut ports = vec![];
    let start_reading = Arc::new(std::sync::atomic::AtomicBool::new(false));
    for (i, c) in conns.iter().enumerate() {
        let mut s = std::net::TcpStream::connect(&target).map_err(|e| format!("client connect: {}", e))?;
        let bytes: &[u8] = match c {
            Conn::JustConnected => b"",
            Conn::HalfRequest => b"GET / HTTP/1.1\r\nHost: x",
            Conn::Short => b"GET / HTTP/1.1\r\nHost: x\r\nConnection: close\r\n\r\n",
            Conn::KeepAliveIdle => b"GET / HTTP/1.1\r\nHost: x\r\nConnection: keep-alive\r\n\r\n",
            Conn::Long => b"GET /slow HTTP/1.1\r\nHost: x\r\nConnection: close\r\n\r\n",
            Conn::WebSocket => b"GET /ws HTTP/1.1\r\nHost: x\r\nUpgrade: websocket\r\nConnection: Upgrade\r\n\r\n",
            Conn::TwoRequests => b"GET / HTTP/1.1\r\nHost: x\r\nConnection: keep-alive\r\n\r\n",
            Conn::BigResponse => b"GET /big HTTP/1.1\r\nHost: x\r\nConnection: close\r\n\r\n",
        };
        let _ = s.write_all(bytes);
        ports.push(s.local_addr().map(|a| a.port()).unwrap_or(0));
        let (sr, late_reader) = (start_reading.clone(), *c == Conn::BigResponse);
        let rc = received.clone();
        let mut s2 = s.try_clone().unwrap();
        let _ = s2.set_read_timeout(Some(Duration::from_millis(1500)));
        std::thread::spawn(move || {
            // a response that is "being written" at the signal: its client reads nothing until run() has returned
            while late_reader && !sr.load(std::sync::atomic::Ordering::SeqCst) {
                std::thread::sleep(Duration::from_millis(2));
            }
            let mut buf = vec![0u8; 1 << 16];
            while let Ok(n) = s2.read(&mut buf) {
                if n == 0 {
                    break;
                }
                rc.lock().unwrap()[i].extend_from_slice(&buf[..n]);
            }
        });
        socks.push(s);
    }
    std::thread::sleep(Duration::from_millis(60));
    let sent = Instant::now();
    tx.send(()).map_err(|_| "shutdown receiver gone".to_string())?;
    // bounded wait for run() to return
    let deadline = Instant::now() + Duration::from_secs(5);
    while returned.lock().unwrap().is_none() && Instant::now() < deadline {
        std::thread::sleep(Duration::from_millis(2));
    }
    let Some(at) = *returned.lock().unwrap() else {
        drop(gate_tx);
        return Err("run() did not return within 5 s of the shutdown signal".into());
    };
    let ok = server.join().unwrap_or(false);
    if !ok {
        return Err("run() returned an error".into());
    }
    let rebind = std::net::TcpListener::bind(bind.as_str());
    if rebind.is_err() {
        return Err(format!("port cannot be bound again right after run() returned: {:?}", rebind.err()));
    }
    drop(rebind);
    drop(gate_tx);
    start_reading.store(true, std::sync::atomic::Ordering::SeqCst);
    // requests that were being handled (slow handler entered) or answered (big response) at the signal: their
    // responses must still arrive whole; bounded wait
    let entered = entered.lock().unwrap().clone();
    let owed: Vec<usize> = (0..conns.len()).filter(|&i| (conns[i] == Conn::Long && entered.contains(&ports[i])) || (conns[i] == Conn::BigResponse && p > conns[..i].iter().filter(|k| matches!(k, Conn::JustConnected | Conn::HalfRequest | Conn::KeepAliveIdle | Conn::WebSocket | Conn::TwoRequests)).count())).collect();
    let until = Instant::now() + Duration::from_secs(5);
    loop {
        let done = owed.iter().all(|&i| parse_responses(&received.lock().unwrap()[i]) == (1, 0));
        if done || Instant::now() > until {
            break;
        }
        std::thread::sleep(Duration::from_millis(5));
    }
    std::thread::sleep(Duration::from_millis(40));
    for (i, c) in conns.iter().enumerate() {
        let out = received.lock().unwrap()[i].clone();
        if *c == Conn::WebSocket {
            continue;
        }
        let (n, leftover) = parse_responses(&out);
        if leftover > 0 {
            return Err(format!("connection {} ({:?}) received a truncated response", i, c));
        }
        if owed.contains(&i) && n != 1 {
            return Err(format!("connection {} ({:?}): a request that was being handled at the signal got {} responses", i, c, n));
        }
    }
    drop(socks);
    Ok(format!("returned after {} ms", at.duration_since(sent).as_millis()))
}

pub fn run_replays(st: &mut Stats, quick: bool) {
    let kinds = [Conn::JustConnected, Conn::HalfRequest, Conn::Short, Conn::KeepAliveIdle, Conn::Long, Conn::WebSocket];
    let mut scns: Vec<(usize, &str, Vec<Conn>)> = vec![(1, "127.0.0.1", vec![]), (2, "0.0.0.0", vec![]), (2, "::", vec![])];
    for k in kinds {
        scns.push((1, "127.0.0.1", vec![k]));
        scns.push((2, "0.0.0.0", vec![k]));
    }
    scns.push((1, "127.0.0.1", vec![Conn::BigResponse]));
    scns.push((2, "0.0.0.0", vec![Conn::BigResponse, Conn::Long]));
    scns.push((1, "127.0.0.1", vec![Conn::Long, Conn::Short]));
    scns.push((2, "127.0.0.1", vec![Conn::Long, Conn::Long]));
    scns.push((2, "127.0.0.1", vec![Conn::KeepAliveIdle, Conn::KeepAliveIdle]));
    if !quick {
        for a in kinds {
            for b in kinds {
                scns.push((2, "0.0.0.0", vec![a, b]));
            }
        }
    }
    use rayon::prelude::*;
    let results: Vec<(String, Result<String, String>)> = scns.par_iter().map(|(p, ip, c)| (format!("P={} bind={} conns={:?}", p, ip, c), replay(*p, ip, c))).collect();
    for (name, r) in results {
        st.evaluations += 1;
        st.traces_validated += 1;
        match r {
            Ok(_) => st.outcome("free-running replay agrees"),
            Err(e) => st.violation(format!("free-running replay on real sockets: {}", e.split(':').next().unwrap_or("")), || json!({"scenario": name, "what": e})),
        }
    }
}
