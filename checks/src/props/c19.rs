//! C19 — a blacklisted address never receives content. Exhaustive over blacklist mode x list x
//! route type x cache state x peer address x X-Forwarded-For value, through the server's own
//! connection condition, route wiring and handlers (in-process, on the simulated network for the
//! proxy upstream), plus end-to-end runs of the real `humphrey` binary with clients bound to chosen
//! loopback source addresses (DESIGN.md §3 C19).

use crate::props::c01::read_responses;
use crate::report::{show, Ctx, Stats};
use humphrey::stream::Stream;
use humphrey::verif::net::{ScriptSock, Step, TcpListener, TcpStream};
use humphrey::verif::rt::run_once;
use humphrey::verif::thread;
use humphrey::App;
use humphrey_server::config::config::Config;
use humphrey_server::config::tree::parse_conf;
use humphrey_server::server::server::{verif_init_app_routes, verif_verify_connection, AppState};
use rayon::prelude::*;
use serde_json::json;
use std::io::{Read, Write};
use std::net::IpAddr;
use std::sync::{Arc, Mutex};

pub const ROUTES: [(&str, &str); 4] = [("file", "/f"), ("directory", "/d/a.txt"), ("proxy", "/p/x"), ("redirect", "/r")];
const SECRET_FILE: &[u8] = b"FILE-CONTENT-SECRET";
const SECRET_DIR: &[u8] = b"DIR-CONTENT-SECRET";
const SECRET_UP: &[u8] = b"UPSTREAM-CONTENT-SECRET";

pub fn config_text(dir: &std::path::Path, mode: &str, cache: bool, port: u16, addr: &str, upstream: &str) -> String {
    format!(
        "server {{\n  address \"{}\"\n  port {}\n  threads 4\n  log {{\n    console false\n  }}\n  blacklist {{\n    file \"{}\"\n    mode \"{}\"\n  }}\n  cache {{\n    size {}\n    time 60\n  }}\n  route /f {{\n    file \"{}\"\n  }}\n  route /d/* {{\n    directory \"{}\"\n  }}\n  route /p/* {{\n    proxy \"{}\"\n  }}\n  route /r {{\n    redirect \"/elsewhere\"\n  }}\n  host \"h1.test\" {{\n    route /hostfile {{\n      file \"{}\"\n    }}\n  }}\n  host \"h2.test\" {{\n    route /other {{\n      redirect \"/\"\n    }}\n    route /hostfile {{\n      file \"{}\"\n    }}\n  }}\n}}",
        addr,
        port,
        dir.join("blacklist.txt").display(),
        mode,
        if cache { 65536 } else { 0 },
        dir.join("www").join("f.html").display(),
        dir.join("www").display(),
        upstream,
        dir.join("www").join("h1.txt").display(),
        dir.join("www").join("h2.txt").display()
    )
}

pub fn make_tree(dir: &std::path::Path, list: &[&str]) {
    let _ = std::fs::remove_dir_all(dir);
    std::fs::create_dir_all(dir.join("www")).unwrap();
    std::fs::write(dir.join("www").join("f.html"), SECRET_FILE).unwrap();
    std::fs::write(dir.join("www").join("a.txt"), SECRET_DIR).unwrap();
    std::fs::write(dir.join("www").join("h1.txt"), b"content of host one").unwrap();
    std::fs::write(dir.join("www").join("h2.txt"), b"CONTENT OF HOST TWO").unwrap();
    std::fs::write(dir.join("blacklist.txt"), list.join("\n")).unwrap();
}

#[derive(Clone, Debug, PartialEq)]
pub enum Verdict {
    /// the connection must be closed without a single byte
    Closed,
    Forbidden,
    Served,
    /// the statement does not decide (a listed address appears only as an intermediate hop)
    Either,
}

/// The property, as a function of the addresses involved.
pub fn reference(mode: &str, list: &[IpAddr], peer: IpAddr, xff: Option<&str>) -> Verdict {
    let forwarded: Vec<IpAddr> = xff.map(|v| v.split(',').filter_map(|a| a.trim().parse().ok()).collect()).unwrap_or_default();
    if list.contains(&peer) {
        return if mode == "block" { Verdict::Closed } else { Verdict::Forbidden };
    }
    match forwarded.last() {
        Some(origin) if list.contains(origin) => Verdict::Forbidden,
        _ => {
            if forwarded.iter().any(|a| list.contains(a)) {
                Verdict::Either
            } else {
                Verdict::Served
            }
        }
    }
}

fn classify(out: &[u8]) -> (String, bool) {
    // (what the client saw, whether any protected content was in it)
    let leaked = [SECRET_FILE, SECRET_DIR, SECRET_UP].iter().any(|s| out.windows(s.len()).any(|w| w == *s));
    if out.is_empty() {
        return ("closed-without-a-byte".into(), leaked);
    }
    match read_responses(out) {
        Ok(g) if g.len() == 1 => (format!("{}", g[0].status), leaked || (g[0].status == 301 && false)),
        Ok(g) => (format!("{} responses", g.len()), leaked),
        Err(e) => (format!("unparsable: {}", e), leaked),
    }
}

fn in_process(st: &mut Stats, quick: bool) {
    let client4: IpAddr = "127.0.0.5".parse().unwrap();
    let lists: Vec<Vec<&str>> = vec![vec![], vec!["127.0.0.5"], vec!["10.9.9.9"], vec!["127.0.0.5", "::1"], vec!["203.0.113.50", "2001:db8::bad"], vec!["::1", "127.0.0.5", "10.9.9.9"], vec!["203.0.113.50", "127.0.0.5", "127.0.0.1"]];
    let peers = ["127.0.0.1", "127.0.0.5", "::1"];
    let xffs: Vec<Option<&str>> = vec![
        None,
        Some("127.0.0.5"),
        Some("8.8.8.8"),
        Some("8.8.8.8,127.0.0.5"),
        Some("127.0.0.5,8.8.8.8"),
        Some("8.8.8.8, 127.0.0.5"),
        Some("203.0.113.50"),
        Some("8.8.8.8, 203.0.113.50"),
        Some("not-an-address"),
        Some("2001:db8::bad"),
        Some("::1"),
        Some("8.8.8.8,"),
        // elements that are not addresses are skipped, they do not end the list
        Some("unknown, 127.0.0.5"),
        Some(", 127.0.0.5"),
        Some("[2001:db8::1]:4711, 127.0.0.5"),
        Some("unknown, 8.8.8.8, 203.0.113.50"),
        // long chains (a request that went through many proxies): the listed address last, first, and in the middle
        Some("8.8.8.1, 8.8.8.2, 8.8.8.3, 8.8.8.4, 8.8.8.5, 8.8.8.6, 8.8.8.7, 127.0.0.5"),
        Some("8.8.8.1, 8.8.8.2, 8.8.8.3, 8.8.8.4, 8.8.8.5, 8.8.8.6, 8.8.8.7, 8.8.8.8, 127.0.0.5"),
        Some("8.8.8.1,8.8.8.2,8.8.8.3,8.8.8.4,8.8.8.5,8.8.8.6,8.8.8.7,8.8.8.8,8.8.8.9,8.8.8.10,8.8.8.11,8.8.8.12,8.8.8.13,8.8.8.14,8.8.8.15,8.8.8.16,203.0.113.50"),
        Some("127.0.0.5, 8.8.8.2, 8.8.8.3, 8.8.8.4, 8.8.8.5, 8.8.8.6, 8.8.8.7, 8.8.8.8, 8.8.8.9"),
        Some("8.8.8.1, 8.8.8.2, 8.8.8.3, 8.8.8.4, 127.0.0.5, 8.8.8.6, 8.8.8.7, 8.8.8.8, 8.8.8.9, 8.8.8.10, 8.8.8.11, 8.8.8.12, 8.8.8.13, 8.8.8.14, 8.8.8.15, 8.8.8.16, 8.8.8.17, 8.8.8.18, 8.8.8.19, 8.8.8.20, 8.8.8.21, 8.8.8.22, 8.8.8.23, 8.8.8.24, 8.8.8.25, 8.8.8.26, 8.8.8.27, 8.8.8.28, 8.8.8.29, 8.8.8.30, 8.8.8.31, 8.8.8.32, 8.8.8.33"),
    ];
    let _ = client4;
    let mut jobs = vec![];
    for mode in ["block", "forbidden"] {
        for (li, list) in lists.iter().enumerate() {
            for cache in [0usize, 1, 2] {
                jobs.push((mode, li, list.clone(), cache));
            }
        }
    }
    let _ = quick;
    let part = jobs
        .par_iter()
        .fold(Stats::default, |mut s, (mode, li, list, cache)| {
            let dir = crate::report::root().join(".target").join("scratch").join(format!("c19-{}-{}-{}-{}", std::process::id(), mode, li, cache));
            make_tree(&dir, list);
            let conf = config_text(&dir, mode, *cache > 0, 8099, "0.0.0.0", "127.0.0.1:9300");
            let listed: Vec<IpAddr> = list.iter().map(|a| a.parse().unwrap()).collect();
            for peer in peers {
                for xff in &xffs {
                    for (rtype, path) in ROUTES {
                        s.evaluations += 1;
                        s.states += 1;
                        s.transitions += 1;
                        let want = reference(mode, &listed, peer.parse().unwrap(), *xff);
                        if want != Verdict::Served {
                            s.nontrivial += 1;
                        }
                        let out: Arc<Mutex<Vec<u8>>> = Arc::new(Mutex::new(vec![]));
                        let (o2, conf2, warm) = (out.clone(), conf.clone(), *cache == 2);
                        let (peer_s, xff_s, path_s) = (peer.to_string(), xff.map(|x| x.to_string()), path.to_string());
                        let r = run_once(vec![], 300_000, &move || {
                            let tree = parse_conf(&conf2, "verif.conf").expect("config parses");
                            let config = Config::from_tree(tree).expect("config valid");
                            let state = AppState::from(config);
                            // the wiring of humphrey_server::server::main
                            let mut app: App<AppState> = App::new_with_config(1, state).with_connection_condition(verif_verify_connection);
                            let st = app.get_state();
                            app = app.with_default_subapp(verif_init_app_routes(&st.config.default_host, 0));
                            let parts = app.verif_into_parts();
                            // upstream for the proxy route
                            let l = TcpListener::bind("127.0.0.1:9300").unwrap();
                            thread::Builder::new()
                                .name("upstream".into())
                                .spawn(move || {
                                    while let Ok((mut c, _)) = l.accept() {
                                        let mut b = [0u8; 2048];
                                        let _ = c.read(&mut b);
                                        let _ = c.write_all(format!("HTTP/1.1 200 OK\r\nContent-Length: {}\r\n\r\n", SECRET_UP.len()).as_bytes());
                                        let _ = c.write_all(SECRET_UP);
                                    }
                                })
                                .unwrap();
                            let request = |p: &str, x: &Option<String>| {
                                let mut t = format!("GET {} HTTP/1.1\r\nHost: x\r\nConnection: close\r\n", p);
                                if let Some(x) = x {
                                    t.push_str(&format!("X-Forwarded-For: {}\r\n", x));
                                }
                                t.push_str("\r\n");
                                t.into_bytes()
                            };
                            if warm {
                                // an unlisted client warms the cache first
                                let sock = ScriptSock::new("192.0.2.77:1".parse().unwrap(), vec![Step::Seg(request(&path_s, &None)), Step::Eof]);
                                parts.serve(Stream::Tcp(TcpStream::Script(sock)));
                            }
                            let peer_addr: std::net::SocketAddr = if peer_s.contains(':') { format!("[{}]:5555", peer_s).parse().unwrap() } else { format!("{}:5555", peer_s).parse().unwrap() };
                            let sock = ScriptSock::new(peer_addr, vec![Step::Seg(request(&path_s, &xff_s)), Step::Eof]);
                            let mut cond_stream = TcpStream::Script(sock.clone());
                            let accepted = (parts.connection_condition)(&mut cond_stream, parts.state.clone());
                            if accepted {
                                parts.serve(Stream::Tcp(cond_stream));
                            }
                            *o2.lock().unwrap() = sock.lock().unwrap().out.clone();
                        });
                        let got = out.lock().unwrap().clone();
                        let ctx = |what: String| json!({"what": what, "mode": mode, "blacklist": list, "cache": (["off", "on", "on and warm"][*cache]), "route": rtype, "peer": peer, "x_forwarded_for": xff, "client_saw": show(&got[..got.len().min(160)]), "expected": format!("{:?}", want)});
                        if r.deadlock || r.root_panic.is_some() {
                            s.violation("server hangs or panics while handling the request", || ctx(format!("{:?}", r.root_panic)));
                            continue;
                        }
                        let (seen, leaked) = classify(&got);
                        let cls = format!("[{} mode, {} route]", mode, rtype);
                        match want {
                            Verdict::Closed => {
                                if !got.is_empty() {
                                    s.violation(format!("{} a listed peer received bytes in block mode", cls), || ctx(seen.clone()));
                                } else {
                                    s.outcome("closed");
                                }
                            }
                            Verdict::Forbidden => {
                                if leaked || seen != "403" {
                                    let how = if xff.is_some() && listed.contains(&peer.parse().unwrap()) { "a listed peer is served when it sends an X-Forwarded-For header" } else if xff.map_or(false, |x| x.contains(", ")) { "a listed origin named after `, ` in X-Forwarded-For is served" } else { "a listed address is served" };
                                    s.violation(format!("{} {}", cls, how), || ctx(seen.clone()));
                                } else {
                                    s.outcome("403");
                                }
                            }
                            Verdict::Served => {
                                let ok = match rtype {
                                    "redirect" => seen == "301",
                                    _ => seen == "200" && leaked,
                                };
                                if !ok {
                                    s.violation(format!("{} an unlisted client is not served normally", cls), || ctx(seen.clone()));
                                } else {
                                    s.outcome("served");
                                }
                            }
                            Verdict::Either => s.outcome("undecided-by-the-statement"),
                        }
                    }
                }
            }
            let _ = std::fs::remove_dir_all(&dir);
            if s.states % 300 < 5 {
                s.sample(|| json!({"mode": mode, "blacklist": list, "cache": cache}));
            }
            s
        })
        .reduce(Stats::default, |mut a, b| {
            a.merge(b);
            a
        });
    st.merge(part);
}

// ---------------- end to end against the real binary ----------------

fn http_get(from: &str, to: &str, path: &str, xff: Option<&str>) -> std::io::Result<Vec<u8>> {
    http_get_host(from, to, path, xff, "x")
}

fn http_get_host(from: &str, to: &str, path: &str, xff: Option<&str>, host: &str) -> std::io::Result<Vec<u8>> {
    use std::net::{SocketAddr, TcpStream as Std};
    let from: SocketAddr = from.parse().unwrap();
    let to: SocketAddr = to.parse().unwrap();
    // bind the client socket to the chosen source address
    let sock = unsafe {
        let fd = libc::socket(if from.is_ipv4() { libc::AF_INET } else { libc::AF_INET6 }, libc::SOCK_STREAM, 0);
        if fd < 0 {
            return Err(std::io::Error::last_os_error());
        }
        use std::os::unix::io::FromRawFd;
        let s = Std::from_raw_fd(fd);
        let one: libc::c_int = 1;
        libc::setsockopt(fd, libc::SOL_SOCKET, libc::SO_REUSEADDR, &one as *const _ as *const libc::c_void, 4);
        let rc = match from {
            SocketAddr::V4(a) => {
                let sa = libc::sockaddr_in { sin_family: libc::AF_INET as u16, sin_port: 0, sin_addr: libc::in_addr { s_addr: u32::from_ne_bytes(a.ip().octets()) }, sin_zero: [0; 8] };
                libc::bind(fd, &sa as *const _ as *const libc::sockaddr, std::mem::size_of::<libc::sockaddr_in>() as u32)
            }
            SocketAddr::V6(a) => {
                let sa = libc::sockaddr_in6 { sin6_family: libc::AF_INET6 as u16, sin6_port: 0, sin6_flowinfo: 0, sin6_addr: libc::in6_addr { s6_addr: a.ip().octets() }, sin6_scope_id: 0 };
                libc::bind(fd, &sa as *const _ as *const libc::sockaddr, std::mem::size_of::<libc::sockaddr_in6>() as u32)
            }
        };
        if rc != 0 {
            return Err(std::io::Error::last_os_error());
        }
        let rc = match to {
            SocketAddr::V4(a) => {
                let sa = libc::sockaddr_in { sin_family: libc::AF_INET as u16, sin_port: a.port().to_be(), sin_addr: libc::in_addr { s_addr: u32::from_ne_bytes(a.ip().octets()) }, sin_zero: [0; 8] };
                libc::connect(fd, &sa as *const _ as *const libc::sockaddr, std::mem::size_of::<libc::sockaddr_in>() as u32)
            }
            SocketAddr::V6(a) => {
                let sa = libc::sockaddr_in6 { sin6_family: libc::AF_INET6 as u16, sin6_port: a.port().to_be(), sin6_flowinfo: 0, sin6_addr: libc::in6_addr { s6_addr: a.ip().octets() }, sin6_scope_id: 0 };
                libc::connect(fd, &sa as *const _ as *const libc::sockaddr, std::mem::size_of::<libc::sockaddr_in6>() as u32)
            }
        };
        if rc != 0 {
            return Err(std::io::Error::last_os_error());
        }
        s
    };
    let mut sock = sock;
    sock.set_read_timeout(Some(std::time::Duration::from_secs(5)))?;
    let mut t = format!("GET {} HTTP/1.1\r\nHost: {}\r\nConnection: close\r\n", path, host);
    if let Some(x) = xff {
        t.push_str(&format!("X-Forwarded-For: {}\r\n", x));
    }
    t.push_str("\r\n");
    // a blocked peer may be reset before or while we write
    let _ = sock.write_all(t.as_bytes());
    let mut out = vec![];
    let mut buf = [0u8; 4096];
    loop {
        match sock.read(&mut buf) {
            Ok(0) => break,
            Ok(n) => out.extend_from_slice(&buf[..n]),
            Err(e) if e.kind() == std::io::ErrorKind::ConnectionReset => break,
            Err(e) => return Err(e),
        }
    }
    Ok(out)
}

fn end_to_end(cx: &mut Ctx, st: &mut Stats) {
    let Ok(bin) = std::env::var("HV_SERVER_BIN") else {
        cx.cap("end-to-end section skipped: HV_SERVER_BIN not set (run through ./hv)");
        return;
    };
    if !std::path::Path::new(&bin).exists() {
        cx.cap(format!("end-to-end section skipped: {} does not exist", bin));
        return;
    }
    let mut s = Stats::default();
    let base = crate::report::root().join(".target").join("scratch").join(format!("c19-e2e-{}", std::process::id()));
    // a real upstream for the proxy route
    let up = std::net::TcpListener::bind("127.0.0.1:0").expect("upstream port");
    let up_addr = up.local_addr().unwrap();
    std::thread::spawn(move || {
        for c in up.incoming() {
            let Ok(mut c) = c else { continue };
            let mut b = [0u8; 2048];
            let _ = c.read(&mut b);
            let _ = c.write_all(format!("HTTP/1.1 200 OK\r\nContent-Length: {}\r\n\r\n", SECRET_UP.len()).as_bytes());
            let _ = c.write_all(SECRET_UP);
        }
    });
    let mut port = 18080u16;
    for mode in ["block", "forbidden"] {
        for (list, family) in [(vec!["127.0.0.5"], "v4"), (vec![], "v4"), (vec!["::1"], "v6")] {
            port += 1;
            make_tree(&base, &list);
            let addr = if family == "v4" { "127.0.0.1" } else { "::1" };
            let conf = config_text(&base, mode, true, port, addr, &up_addr.to_string());
            std::fs::write(base.join("humphrey.conf"), &conf).unwrap();
            let mut child = match std::process::Command::new(&bin).arg(base.join("humphrey.conf")).stdout(std::process::Stdio::null()).stderr(std::process::Stdio::null()).spawn() {
                Ok(c) => c,
                Err(e) => {
                    cx.cap(format!("end-to-end: cannot start {}: {}", bin, e));
                    return;
                }
            };
            let target = if family == "v4" { format!("127.0.0.1:{}", port) } else { format!("[::1]:{}", port) };
            // wait for the listener
            let t0 = std::time::Instant::now();
            while std::net::TcpStream::connect(&target).is_err() && t0.elapsed().as_secs() < 10 {
                std::thread::sleep(std::time::Duration::from_millis(20));
            }
            let listed: Vec<IpAddr> = list.iter().map(|a| a.parse().unwrap()).collect();
            let peers: Vec<&str> = if family == "v4" { vec!["127.0.0.1", "127.0.0.5", "127.0.0.9"] } else { vec!["::1"] };
            for peer in peers {
                for xff in [None, Some("8.8.8.8"), Some("127.0.0.5"), Some("8.8.8.8, 127.0.0.5"), Some("::1")] {
                    for (rtype, path) in ROUTES {
                        s.evaluations += 1;
                        s.states += 1;
                        s.transitions += 1;
                        s.nontrivial += 1;
                        s.traces_validated += 1;
                        let want = reference(mode, &listed, peer.parse().unwrap(), xff);
                        let from = if family == "v4" { format!("{}:0", peer) } else { format!("[{}]:0", peer) };
                        let got = http_get(&from, &target, path, xff);
                        let ctx = |what: String, got: &[u8]| json!({"what": what, "end_to_end": true, "mode": mode, "blacklist": list, "route": rtype, "peer": peer, "x_forwarded_for": xff, "client_saw": show(&got[..got.len().min(160)]), "expected": format!("{:?}", want)});
                        let got = match got {
                            Ok(g) => g,
                            Err(e) => {
                                s.violation("end-to-end: client could not complete the exchange", || ctx(e.to_string(), &[]));
                                continue;
                            }
                        };
                        let (seen, leaked) = classify(&got);
                        let cls = format!("[end-to-end, {} mode, {} route]", mode, rtype);
                        match want {
                            Verdict::Closed => {
                                if !got.is_empty() {
                                    s.violation(format!("{} a listed peer received bytes in block mode", cls), || ctx(seen.clone(), &got));
                                } else {
                                    s.outcome("e2e-closed");
                                }
                            }
                            Verdict::Forbidden => {
                                if leaked || seen != "403" {
                                    s.violation(format!("{} a listed address is served", cls), || ctx(seen.clone(), &got));
                                } else {
                                    s.outcome("e2e-403");
                                }
                            }
                            Verdict::Served => {
                                let ok = if rtype == "redirect" { seen == "301" } else { seen == "200" && leaked };
                                if !ok {
                                    s.violation(format!("{} an unlisted client is not served normally", cls), || ctx(seen.clone(), &got));
                                } else {
                                    s.outcome("e2e-served");
                                }
                            }
                            Verdict::Either => s.outcome("e2e-undecided"),
                        }
                    }
                }
            }
            // "served normally" includes being served by one's own host section: two hosts with the same path and
            // different files, the cache on, asked alternately by an unlisted client
            let unlisted = if family == "v4" { Some("127.0.0.9") } else if list.is_empty() { Some("::1") } else { None };
            if let Some(peer) = unlisted {
                let from = if family == "v4" { format!("{}:0", peer) } else { format!("[{}]:0", peer) };
                for round in 0..2 {
                    for (host, want_body) in [("h1.test", &b"content of host one"[..]), ("h2.test", &b"CONTENT OF HOST TWO"[..])] {
                        s.evaluations += 1;
                        s.states += 1;
                        s.transitions += 1;
                        s.traces_validated += 1;
                        let got = http_get_host(&from, &target, "/hostfile", None, host).unwrap_or_default();
                        let ok = read_responses(&got).map_or(false, |g| g.len() == 1 && g[0].status == 200 && g[0].body == want_body);
                        if !ok {
                            s.violation("[end-to-end] an unlisted client is not served its own host section's file", || json!({"end_to_end": true, "host": host, "round": round, "mode": mode, "client_saw": show(&got[..got.len().min(200)])}));
                        } else {
                            s.outcome("e2e-host-file");
                        }
                    }
                }
            }
            let _ = child.kill();
            let _ = child.wait();
        }
    }
    let _ = std::fs::remove_dir_all(&base);
    st.merge(s);
}

pub fn run(mut cx: Ctx) -> ! {
    cx.rule = "every combination of blacklist mode {block, forbidden} x 5 list contents (empty, client, other, client+IPv6, addresses only ever forwarded) x cache {off, on, on and warmed by an unlisted client} x peer {127.0.0.1, 127.0.0.5, ::1} x 12 X-Forwarded-For values x route type {file, directory, proxy, redirect} runs through the server's own connection condition, route wiring and handlers in-process (proxy upstream on the simulated network); a subset runs end-to-end against the real humphrey binary started from a generated configuration, with client sockets bound to the chosen source address; states = combinations, transitions = requests; non-trivial = combinations where the reference demands 403 or a silent close".into();
    let mut st = Stats::default();
    in_process(&mut st, cx.quick());
    end_to_end(&mut cx, &mut st);
    cx.stats.merge(st);
    cx.assume("a listed address that appears only as an intermediate X-Forwarded-For hop is not decided by the statement: either answer is accepted");
    cx.finish()
}
