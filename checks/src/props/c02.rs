//! C02 — request parsing is faithful, segmentation-independent and round-trips (threaded parser
//! runner; generator and oracle in c02_gen.rs, tokio runner in /verif/checks-tokio).

pub use crate::props::c02_gen::*;
use crate::plans::{plans, CutReader, Depth};
use crate::report::{show, Ctx, Stats};
use humphrey::http::Request;
use rayon::prelude::*;
use serde_json::json;
use std::net::SocketAddr;

pub fn check_request(s: &mut Stats, fam: &str, r: &Req, depth: Depth, all_cuts_below: usize) {
    let bytes = r.bytes();
    let peer: SocketAddr = PEER.parse().unwrap();
    s.states += 1;
    if !r.headers.is_empty() || r.body.is_some() {
        s.nontrivial += 1;
    }
    let focus = r.boundaries();
    let pl = if bytes.len() <= all_cuts_below { plans(bytes.len(), depth, None) } else { plans(bytes.len().min(70_000), Depth::Single, Some(&focus)) };
    let mut first: Option<Request> = None;
    for cuts in pl {
        if bytes.len() > 2000 && cuts.len() > 64 {
            continue; // bytewise delivery of large bodies is covered by the 8 KiB class only
        }
        s.evaluations += 1;
        s.transitions += 1;
        let _call = crate::report::enter(&bytes);
        let res = std::panic::catch_unwind(|| {
            let mut rd = CutReader::new(&bytes, &cuts);
            let x = Request::from_stream(&mut rd, peer);
            (x, rd.pos)
        });
        let ctx = |what: String| json!({"family": fam, "what": what, "request_head": show(&bytes[..bytes.len().min(220)]), "len": bytes.len(), "cuts": if cuts.len() > 12 { json!(format!("{} cuts (bytewise)", cuts.len())) } else { json!(cuts) }});
        match res {
            Err(_) => s.violation(format!("[{}] parser panicked on a well-formed request", fam), || ctx("panic".into())),
            Ok((Err(e), _)) => s.violation(format!("[{}] well-formed request rejected", fam), || ctx(format!("{:?}", e))),
            Ok((Ok(got), consumed)) => {
                if let Some(m) = mismatch(r, &got, peer) {
                    let class = m.split(' ').next().unwrap_or("").to_string();
                    let whole = cuts.is_empty();
                    s.violation(format!("[{}] parsed request differs from the bytes sent ({}){}", fam, class, if whole { "" } else { " under a split delivery" }), || ctx(m.clone()));
                    continue;
                }
                let _ = consumed;
                if first.is_none() {
                    // round trip once per request
                    let again_bytes: Vec<u8> = got.clone().into();
                    s.transitions += 2;
                    let again = std::panic::catch_unwind(|| Request::from_stream(&mut &again_bytes[..], peer));
                    match again {
                        Ok(Ok(g2)) if same_request(&got, &g2) => s.outcome("roundtrip-ok"),
                        Ok(Ok(g2)) => {
                            let hdr = got.headers.len() == g2.headers.len() && got.uri == g2.uri && got.content == g2.content;
                            s.violation(
                                format!("[{}] parse(serialise(request)) differs from the request{}", fam, if hdr { " (order of same-named header fields)" } else { "" }),
                                || ctx(format!("reserialised head: {}", show(&again_bytes[..again_bytes.len().min(300)]))),
                            )
                        }
                        Ok(Err(e)) => s.violation(format!("[{}] serialised request does not parse", fam), || ctx(format!("{:?}: {}", e, show(&again_bytes[..again_bytes.len().min(200)])))),
                        Err(_) => s.violation(format!("[{}] round trip panicked", fam), || ctx("panic".into())),
                    }
                    first = Some(got);
                }
            }
        }
    }
    if s.states % 400 == 1 {
        s.sample(|| json!({"family": fam, "request": show(&bytes[..bytes.len().min(160)])}));
    }
}

fn run_family(st: &mut Stats, fam: &str, reqs: Vec<Req>, depth: Depth, all_cuts_below: usize) {
    st.count(&format!("requests[{}]", fam), reqs.len() as u64);
    let part = reqs
        .par_iter()
        .fold(Stats::default, |mut s, r| {
            check_request(&mut s, fam, r, depth, all_cuts_below);
            s
        })
        .reduce(Stats::default, |mut a, b| {
            a.merge(b);
            a
        });
    st.merge(part);
}

pub fn run(mut cx: Ctx) -> ! {
    cx.rule = "structured requests of the bounded grammar are rendered to bytes and parsed by the real Request::from_stream under every read plan (whole, bytewise, every single cut, pairs of cuts in thorough; for long requests cuts at every structural boundary and around 8192*k); the generating structure is the expected parse (method, path, query, version, per-name header value sequences under three name spellings, cookies, origin/proxies/port, body); each parsed request is serialised and parsed again; the tokio parser runs the same families on a current-thread runtime with Pending polls injected; states = distinct requests, transitions = parser/serialiser calls; non-trivial = requests with header fields or a body".into();
    let fams = families(cx.quick());
    let mut st = Stats::default();
    for (name, reqs, depth, below) in fams.list {
        run_family(&mut st, name, reqs, depth, below);
    }
    cx.bound("header_sequence_len", fams.header_sequence_len);
    cx.bound("many_header_counts", json!(fams.many_header_counts));
    cx.bound("body_lengths", json!(fams.body_lengths));
    cx.stats.merge(st);
    crate::tokio_twin::merge(&mut cx, "C02");
    cx.finish()
}
