//! C05 — glob semantics of `humphrey::krauss::wildcard_match` (DESIGN.md §3 C05).
//! Bounded-exhaustive enumeration of (pattern, text) pairs against a DP reference.

use crate::report::{Ctx, Stats};
use humphrey::krauss::wildcard_match;
use humphrey::route::Route;
use rayon::prelude::*;
use serde_json::json;

/// Reference: `*` = any (possibly empty) string, every other char itself.
pub fn glob_ref(p: &[char], t: &[char]) -> bool {
    // dp[j] = pattern[..i] matches text[..j]
    let mut dp = vec![false; t.len() + 1];
    dp[0] = true;
    for &pc in p {
        if pc == '*' {
            for j in 1..=t.len() {
                dp[j] = dp[j] || dp[j - 1];
            }
        } else {
            for j in (1..=t.len()).rev() {
                dp[j] = dp[j - 1] && t[j - 1] == pc;
            }
            dp[0] = false;
        }
    }
    dp[t.len()]
}

pub fn words(alpha: &[char], max: usize) -> Vec<Vec<char>> {
    let mut out = vec![vec![]];
    let mut start = 0;
    for _ in 0..max {
        let end = out.len();
        for i in start..end {
            for &c in alpha {
                let mut w = out[i].clone();
                w.push(c);
                out.push(w);
            }
        }
        start = end;
    }
    out
}

fn family(st: &mut Stats, name: &str, pats: &[Vec<char>], texts: &[Vec<char>]) {
    let texts_s: Vec<String> = texts.iter().map(|t| t.iter().collect()).collect();
    let part = pats
        .par_iter()
        .map(|p| {
            let mut s = Stats::default();
            let ps: String = p.iter().collect();
            let has_star = p.contains(&'*');
            let has_lit = p.iter().any(|&c| c != '*');
            for (t, ts) in texts.iter().zip(texts_s.iter()) {
                let want = glob_ref(p, t);
                let _call = crate::report::enter(format!("wildcard_match({:?}, {:?})", ps, ts).as_bytes());
                let got = std::panic::catch_unwind(|| wildcard_match(&ps, ts));
                s.evaluations += 1;
                s.states += 1;
                s.transitions += 1;
                if has_star && has_lit && !t.is_empty() {
                    s.nontrivial += 1;
                }
                // routes are matched through Route::route_matches: same semantics, second entry point
                let via_route = std::panic::catch_unwind(|| ps.route_matches(ts));
                s.transitions += 1;
                match via_route {
                    Ok(g) if g == want => {}
                    Ok(g) => s.violation(format!("route_matches disagrees with the glob semantics: expected {} got {}", want, g), || json!({"family": name, "pattern": ps, "text": ts, "expected": want, "got": g, "entry_point": "Route::route_matches"})),
                    Err(_) => s.violation("route_matches panicked", || json!({"family": name, "pattern": ps, "text": ts})),
                }
                match got {
                    Ok(g) if g == want => {
                        if s.evaluations % 50_000 == 1 {
                            s.sample(|| json!({"family": name, "pattern": ps, "text": ts, "match": g}));
                        }
                    }
                    Ok(g) => s.violation(
                        format!("{}: expected {} got {}", if has_star { "pattern-with-star" } else { "literal-pattern" }, want, g),
                        || json!({"family": name, "pattern": ps, "text": ts, "expected": want, "got": g}),
                    ),
                    Err(_) => s.violation("panic", || json!({"family": name, "pattern": ps, "text": ts, "got": "panic"})),
                }
                s.outcome(if want { "match" } else { "no-match" });
            }
            s
        })
        .reduce(Stats::default, |mut a, b| {
            a.merge(b);
            a
        });
    st.count(&format!("pairs[{}]", name), part.evaluations);
    st.merge(part);
}

/// The matcher where the application calls it: the host pattern of a sub-app against the Host header
/// and a route pattern against the request path, asked through the real connection handler. Patterns and
/// texts contain multi-byte characters (lengths counted in bytes vs characters differ there).
fn dispatch_family(st: &mut Stats, maxlen: usize) {
    use crate::props::c01::read_responses;
    use crate::props::c04::{build, Cfg};
    use humphrey::stream::Stream;
    use humphrey::verif::net::{ScriptSock, Step, TcpStream};
    use rayon::prelude::*;
    let pats: Vec<Vec<char>> = words(&['*', 'a', 'é', '😀'], maxlen).into_iter().filter(|w| !w.is_empty()).collect();
    let texts: Vec<Vec<char>> = words(&['a', 'é', '😀'], maxlen).into_iter().filter(|w| !w.is_empty()).collect();
    let ask = |parts: &humphrey::app::VerifParts<()>, target: &str, host: &str| -> Option<String> {
        let req = format!("GET {} HTTP/1.1\r\nHost: {}\r\nConnection: close\r\n\r\n", target, host);
        let sock = ScriptSock::new("127.0.0.1:9".parse().unwrap(), vec![Step::Seg(req.into_bytes()), Step::Eof]);
        let s2 = sock.clone();
        let _call = crate::report::enter(format!("dispatch: target {:?} host {:?}", target, host).as_bytes());
        std::panic::catch_unwind(std::panic::AssertUnwindSafe(|| parts.serve(Stream::Tcp(TcpStream::Script(s2))))).ok()?;
        let out = sock.lock().unwrap().out.clone();
        let g = read_responses(&out).ok()?;
        (g.len() == 1 && g[0].status == 200).then(|| String::from_utf8_lossy(&g[0].body).to_string())
    };
    let part = pats
        .par_iter()
        .fold(Stats::default, |mut s, p| {
            let ps: String = p.iter().collect();
            // (a) as a host pattern: the sub-app answers iff the pattern matches the Host value, else the default app
            // (`*` alone is the default application's own host and is refused by with_host: asked as `**`)
            let host_pat = if ps == "*" { "**".to_string() } else { ps.clone() };
            let built = std::panic::catch_unwind(std::panic::AssertUnwindSafe(|| {
                (
                    build(&Cfg { hosts: vec![(host_pat.clone(), vec!["/*".into()], vec![])], default_routes: vec!["/*".into()], default_ws: vec![], kinds: vec![], direct: false }).verif_into_parts(),
                    // (b) as a route pattern: that route answers iff it matches the path, else the catch-all registered after it
                    build(&Cfg { hosts: vec![], default_routes: vec![format!("/{}", ps), "/*".into()], default_ws: vec![], kinds: vec![], direct: false }).verif_into_parts(),
                )
            }));
            let Ok((as_host, as_route)) = built else {
                s.violation("[dispatch] registering a host or route pattern panicked", || json!({"pattern": ps}));
                return s;
            };
            for t in &texts {
                let ts: String = t.iter().collect();
                let m = glob_ref(p, t);
                s.states += 1;
                for (what, got, want) in [("host pattern of a sub-app", ask(&as_host, "/", &ts), if m { "h0r0" } else { "dr0" }), ("route pattern", ask(&as_route, &format!("/{}", ts), "x"), if m { "dr0" } else { "dr1" })] {
                    s.evaluations += 1;
                    s.transitions += 1;
                    if p.contains(&'*') && p.iter().any(|c| *c != '*') {
                        s.nontrivial += 1;
                    }
                    if got.as_deref() != Some(want) {
                        let class = if m { "rejects a text the pattern matches" } else { "accepts a text the pattern does not match" };
                        s.violation(format!("[dispatch: {}] {}", what, class), || json!({"pattern": ps, "text": ts, "answered_by": got, "expected": want}));
                    } else {
                        s.outcome(if m { "match" } else { "no-match" });
                    }
                }
            }
            s
        })
        .reduce(Stats::default, |mut a, b| {
            a.merge(b);
            a
        });
    st.merge(part);
}

pub fn run(mut cx: Ctx) -> ! {
    cx.rule = "every (pattern, text) pair of the bounded families is run through the real wildcard_match and compared with a DP glob matcher; states = distinct pairs, transitions = calls; non-trivial = pattern has both a `*` and a literal and the text is non-empty".into();
    let (pl, tl) = (cx.pick(7, 8), cx.pick(11, 12));
    cx.bound("pattern_len", pl);
    cx.bound("text_len", tl);
    let mut st = Stats::default();
    for (name, b) in [("ab", 'b'), ("a+2byte", 'é'), ("a+4byte", '𝄞')] {
        let pats = words(&['*', 'a', b], pl);
        let texts = words(&['a', b], tl);
        family(&mut st, name, &pats, &texts);
    }
    // texts that themselves contain `*` (a literal character on the text side)
    family(&mut st, "star-in-text", &words(&['*', 'a', 'b'], 5), &words(&['a', 'b', '*'], 6));
    // host-shaped families with self-overlapping literals
    let lmax = cx.pick(4, 4);
    let labels = words(&['a', '.'], lmax);
    let mut pats = vec![];
    for l1 in &labels {
        for l2 in &labels {
            for shape in 0..4 {
                let mut p: Vec<char> = vec![];
                match shape {
                    0 => { p.push('*'); p.push('.'); p.extend(l1); p.push('.'); p.extend(l2); }
                    1 => { p.extend(l1); p.push('.'); p.push('*'); p.push('.'); p.extend(l2); }
                    2 => { p.push('*'); p.extend(l1); p.push('*'); p.extend(l2); }
                    _ => { p.extend(l1); p.push('*'); p.extend(l2); p.push('*'); }
                }
                pats.push(p);
            }
        }
    }
    pats.sort();
    pats.dedup();
    let tmax = cx.pick(12, 14);
    cx.bound("host_family_label_len", lmax);
    cx.bound("host_family_text_len", tmax);
    family(&mut st, "host-shaped", &pats, &words(&['a', '.'], tmax));
    let dl = cx.pick(4, 4);
    cx.bound("dispatch_family_len", dl);
    dispatch_family(&mut st, dl);
    cx.stats.merge(st);
    cx.finish()
}
