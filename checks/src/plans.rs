//! Read-segmentation plans (environment answers for E2): a byte string plus a set of cut
//! positions; each `read` returns at most the bytes up to the next cut.
use std::io::Read;

pub struct CutReader<'a> {
    pub data: &'a [u8],
    pub pos: usize,
    /// sorted cut positions (a read never crosses one)
    pub cuts: &'a [usize],
    pub reads: usize,
    pub reads_at_eof: usize,
}

impl<'a> CutReader<'a> {
    pub fn new(data: &'a [u8], cuts: &'a [usize]) -> Self {
        assert!(cuts.windows(2).all(|w| w[0] <= w[1]), "CutReader: cut positions must be sorted");
        CutReader { data, pos: 0, cuts, reads: 0, reads_at_eof: 0 }
    }
}

impl<'a> Read for CutReader<'a> {
    fn read(&mut self, buf: &mut [u8]) -> std::io::Result<usize> {
        self.reads += 1;
        if self.pos >= self.data.len() {
            self.reads_at_eof += 1;
            if self.reads_at_eof > 100_000 {
                panic!("verif: more than 100000 reads at end of input (reader does not terminate)");
            }
            return Ok(0);
        }
        // the first cut after the current position (cuts are sorted): binary search, a linear scan made one
        // bytewise delivery of a 1 MiB frame quadratic
        let mut end = self.data.len();
        let i = self.cuts.partition_point(|&c| c <= self.pos);
        if let Some(&c) = self.cuts.get(i) {
            end = end.min(c);
        }
        let n = buf.len().min(end - self.pos);
        buf[..n].copy_from_slice(&self.data[self.pos..self.pos + n]);
        self.pos += n;
        Ok(n)
    }
}

#[derive(Clone, Copy, PartialEq, Debug)]
pub enum Depth {
    /// whole, bytewise, every single cut
    Single,
    /// + every pair of cuts
    Pairs,
}

/// Cut plans for an input of length `len`; `focus` limits single/pair cuts to the given positions
/// (None = every position).
pub fn plans(len: usize, depth: Depth, focus: Option<&[usize]>) -> Vec<Vec<usize>> {
    let mut v: Vec<Vec<usize>> = vec![vec![]];
    if len >= 2 {
        v.push((1..len).collect());
    }
    let pos: Vec<usize> = match focus {
        Some(f) => {
            let mut p: Vec<usize> = f.iter().copied().filter(|&c| c >= 1 && c < len).collect();
            p.sort();
            p.dedup();
            p
        }
        None => (1..len).collect(),
    };
    for &c in &pos {
        v.push(vec![c]);
    }
    if depth == Depth::Pairs {
        for i in 0..pos.len() {
            for j in i + 1..pos.len() {
                v.push(vec![pos[i], pos[j]]);
            }
        }
    }
    v
}

/// Every composition of `len` bytes into segments (2^(len-1) plans), for short inputs.
pub fn all_compositions(len: usize) -> Vec<Vec<usize>> {
    assert!(len <= 16);
    if len == 0 {
        return vec![vec![]];
    }
    (0..(1u32 << (len - 1))).map(|m| (1..len).filter(|c| m & (1 << (c - 1)) != 0).collect()).collect()
}
