//! Runs the tokio twin of a check (binary built from /verif/checks-tokio with humphrey's `tokio`
//! feature) and merges its counters and violations into this run's evidence.
use crate::report::{Ctx, Stats, Tier};

pub fn merge(cx: &mut Ctx, id: &str) {
    let Ok(bin) = std::env::var("HV_TOKIO_BIN") else {
        cx.cap("tokio twin not run: HV_TOKIO_BIN not set (run through ./hv)");
        return;
    };
    if !std::path::Path::new(&bin).exists() {
        cx.cap(format!("tokio twin not run: {} has not been built", bin));
        return;
    }
    let tier = if cx.tier == Tier::Quick { "quick" } else { "thorough" };
    let out = std::process::Command::new(&bin).args([id, "--tier", tier]).output();
    let out = match out {
        Ok(o) => o,
        Err(e) => {
            eprintln!("MACHINERY: cannot run the tokio twin {}: {}", bin, e);
            std::process::exit(3);
        }
    };
    let text = String::from_utf8_lossy(&out.stdout).to_string();
    match text.lines().find(|l| l.starts_with("RESULT ")) {
        Some(l) if out.status.success() => {
            let v: serde_json::Value = serde_json::from_str(&l[7..]).expect("tokio twin JSON");
            let st = Stats::from_json(&v);
            cx.extra.insert("tokio_twin_evaluations".into(), serde_json::json!(st.evaluations));
            cx.stats.merge(st);
        }
        _ => {
            eprintln!("MACHINERY: tokio twin of {} died or produced no result (status {:?}):\n{}", id, out.status, String::from_utf8_lossy(&out.stderr).chars().take(2000).collect::<String>());
            std::process::exit(3);
        }
    }
}
