//! hvc — one binary, one sub-command per property. See /verif/DESIGN.md.
mod alloc;
mod props;

#[global_allocator]
static GLOBAL: alloc::Counting = alloc::Counting;
mod plans;
mod report;
mod sched;
mod tokio_twin;
mod refs;

use report::{Ctx, Tier};

fn main() {
    let args: Vec<String> = std::env::args().collect();
    if args.len() < 2 {
        eprintln!("usage: hvc <C01..C20> [--tier quick|thorough]");
        std::process::exit(2);
    }
    if args[1] == "C03-worker" {
        props::c03::worker(&args[2..]);
    }
    if args[1] == "replay" {
        std::panic::set_hook(Box::new(|_| {}));
        let txt = std::fs::read_to_string(&args[2]).expect("replay file readable");
        let v: serde_json::Value = serde_json::from_str(&txt).expect("replay file is JSON");
        let code = match v["property"].as_str().unwrap_or("") {
            "C12" => props::c12::replay(&v["case"]),
            other => {
                println!("replay for {}: the recorded case is self-describing:\n{}", other, serde_json::to_string_pretty(&v["case"]).unwrap());
                0
            }
        };
        std::process::exit(code);
    }
    let id = args[1].clone();
    let mut tier = match std::env::var("VERIF_TIER").as_deref() {
        Ok("thorough") => Tier::Thorough,
        _ => Tier::Quick,
    };
    let mut i = 2;
    while i < args.len() {
        if args[i] == "--tier" && i + 1 < args.len() {
            tier = if args[i + 1] == "thorough" { Tier::Thorough } else { Tier::Quick };
            i += 1;
        }
        i += 1;
    }
    // Panics inside the subject are caught and turned into verdicts by the checks;
    // keep stderr quiet.
    // A panic in the checking code itself (a source file of this crate) is remembered: if it is what ends
    // the run, that is a machinery failure (exit 3), never a verdict.
    std::panic::set_hook(Box::new(|info| {
        if let Some(l) = info.location() {
            if l.file().starts_with("src/") || std::env::var("HV_DEBUG_PANICS").is_ok() {
                *LAST_OWN_PANIC.lock().unwrap() = Some(format!("{} at {}:{}", info.payload().downcast_ref::<String>().cloned().or_else(|| info.payload().downcast_ref::<&str>().map(|s| s.to_string())).unwrap_or_default(), l.file(), l.line()));
            }
        }
    }));
    let cx = Ctx::new(&id, tier);
    let r = std::panic::catch_unwind(std::panic::AssertUnwindSafe(|| dispatch(&id, cx)));
    if r.is_err() {
        eprintln!("MACHINERY: the check for {} panicked: {}", id, LAST_OWN_PANIC.lock().unwrap().clone().unwrap_or_else(|| "(panic outside the checking code)".into()));
        std::process::exit(3);
    }
}

static LAST_OWN_PANIC: std::sync::Mutex<Option<String>> = std::sync::Mutex::new(None);

fn dispatch(id: &str, cx: Ctx) {
    match id {
        "C01" => props::c01::run(cx),
        "C02" => props::c02::run(cx),
        "C03" => props::c03::run(cx),
        "C04" => props::c04::run(cx),
        "C05" => props::c05::run(cx),
        "C06" => props::c06::run(cx),
        "C07" => props::c07::run(cx),
        "C08" => props::c08::run(cx),
        "C09" => props::c09::run(cx),
        "C10" => props::c10::run(cx),
        "C11" => props::c11::run(cx),
        "C12" => props::c12::run(cx),
        "C13" => props::c13::run(cx),
        "C14" => props::c14::run(cx),
        "C15" => props::c15::run(cx),
        "C16" => props::c16::run(cx),
        "C17" => props::c17::run(cx),
        "C18" => props::c18::run(cx),
        "C19" => props::c19::run(cx),
        "C20" => props::c20::run(cx),
        _ => {
            eprintln!("hvc: no check for {}", id);
            std::process::exit(2);
        }
    }
}
