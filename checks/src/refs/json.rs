//! RFC 8259 reference recogniser + evaluator.
#[derive(Clone, Debug, PartialEq)]
pub enum RV {
    Null,
    Bool(bool),
    Num(f64),
    Str(String),
    Arr(Vec<RV>),
    Obj(Vec<(String, RV)>),
}

#[derive(Debug, PartialEq)]
pub enum Verdict {
    /// valid JSON text denoting this value
    Accept(RV),
    /// not a JSON text (or nested deeper than the limit)
    Reject,
    /// grammatically valid but contains an escape denoting an unpaired surrogate:
    /// the property allows either answer
    Either,
}

pub struct P<'a> {
    s: &'a [char],
    i: usize,
    max_depth: usize,
    lone_surrogate: bool,
}

pub fn parse(text: &str, max_depth: usize) -> Verdict {
    let cs: Vec<char> = text.chars().collect();
    let mut p = P { s: &cs, i: 0, max_depth, lone_surrogate: false };
    p.ws();
    let v = match p.value(0) {
        Some(v) => v,
        None => return Verdict::Reject,
    };
    p.ws();
    if p.i != cs.len() {
        return Verdict::Reject;
    }
    if p.lone_surrogate {
        Verdict::Either
    } else {
        Verdict::Accept(v)
    }
}

impl<'a> P<'a> {
    fn peek(&self) -> Option<char> {
        self.s.get(self.i).copied()
    }
    fn ws(&mut self) {
        while matches!(self.peek(), Some(' ') | Some('\t') | Some('\n') | Some('\r')) {
            self.i += 1;
        }
    }
    fn lit(&mut self, w: &str) -> bool {
        let wc: Vec<char> = w.chars().collect();
        if self.s.len() >= self.i + wc.len() && self.s[self.i..self.i + wc.len()] == wc[..] {
            self.i += wc.len();
            true
        } else {
            false
        }
    }
    fn value(&mut self, depth: usize) -> Option<RV> {
        match self.peek()? {
            'n' => self.lit("null").then_some(RV::Null),
            't' => self.lit("true").then_some(RV::Bool(true)),
            'f' => self.lit("false").then_some(RV::Bool(false)),
            '"' => self.string().map(RV::Str),
            '[' => {
                if depth >= self.max_depth {
                    return None;
                }
                self.i += 1;
                let mut out = vec![];
                self.ws();
                if self.peek()? == ']' {
                    self.i += 1;
                    return Some(RV::Arr(out));
                }
                loop {
                    self.ws();
                    out.push(self.value(depth + 1)?);
                    self.ws();
                    match self.peek()? {
                        ',' => self.i += 1,
                        ']' => {
                            self.i += 1;
                            return Some(RV::Arr(out));
                        }
                        _ => return None,
                    }
                }
            }
            '{' => {
                if depth >= self.max_depth {
                    return None;
                }
                self.i += 1;
                let mut out = vec![];
                self.ws();
                if self.peek()? == '}' {
                    self.i += 1;
                    return Some(RV::Obj(out));
                }
                loop {
                    self.ws();
                    if self.peek()? != '"' {
                        return None;
                    }
                    let k = self.string()?;
                    self.ws();
                    if self.peek()? != ':' {
                        return None;
                    }
                    self.i += 1;
                    self.ws();
                    let v = self.value(depth + 1)?;
                    out.push((k, v));
                    self.ws();
                    match self.peek()? {
                        ',' => self.i += 1,
                        '}' => {
                            self.i += 1;
                            return Some(RV::Obj(out));
                        }
                        _ => return None,
                    }
                }
            }
            '-' | '0'..='9' => self.number(),
            _ => None,
        }
    }
    fn number(&mut self) -> Option<RV> {
        let st = self.i;
        if self.peek() == Some('-') {
            self.i += 1;
        }
        match self.peek()? {
            '0' => self.i += 1,
            '1'..='9' => {
                while matches!(self.peek(), Some('0'..='9')) {
                    self.i += 1;
                }
            }
            _ => return None,
        }
        if self.peek() == Some('.') {
            self.i += 1;
            if !matches!(self.peek(), Some('0'..='9')) {
                return None;
            }
            while matches!(self.peek(), Some('0'..='9')) {
                self.i += 1;
            }
        }
        if matches!(self.peek(), Some('e') | Some('E')) {
            self.i += 1;
            if matches!(self.peek(), Some('+') | Some('-')) {
                self.i += 1;
            }
            if !matches!(self.peek(), Some('0'..='9')) {
                return None;
            }
            while matches!(self.peek(), Some('0'..='9')) {
                self.i += 1;
            }
        }
        let txt: String = self.s[st..self.i].iter().collect();
        // std's correctly-rounded decimal->f64 conversion is trusted for grammar-valid numbers
        txt.parse::<f64>().ok().map(RV::Num)
    }
    fn hex4(&mut self) -> Option<u32> {
        let mut v = 0u32;
        for _ in 0..4 {
            let d = self.peek()?.to_digit(16)?;
            v = v * 16 + d;
            self.i += 1;
        }
        Some(v)
    }
    fn string(&mut self) -> Option<String> {
        self.i += 1; // opening quote
        let mut out = String::new();
        loop {
            let c = self.peek()?;
            self.i += 1;
            match c {
                '"' => return Some(out),
                '\\' => {
                    let e = self.peek()?;
                    self.i += 1;
                    match e {
                        '"' => out.push('"'),
                        '\\' => out.push('\\'),
                        '/' => out.push('/'),
                        'b' => out.push('\u{8}'),
                        'f' => out.push('\u{c}'),
                        'n' => out.push('\n'),
                        'r' => out.push('\r'),
                        't' => out.push('\t'),
                        'u' => {
                            let u = self.hex4()?;
                            if (0xD800..0xDC00).contains(&u) {
                                // high surrogate: needs a following \uDC00..DFFF
                                let save = self.i;
                                if self.peek() == Some('\\') && self.s.get(self.i + 1) == Some(&'u') {
                                    self.i += 2;
                                    if let Some(l) = self.hex4() {
                                        if (0xDC00..0xE000).contains(&l) {
                                            let cp = 0x10000 + ((u - 0xD800) << 10) + (l - 0xDC00);
                                            out.push(char::from_u32(cp).unwrap());
                                            continue;
                                        }
                                    }
                                }
                                self.i = save;
                                self.lone_surrogate = true;
                                out.push('\u{FFFD}');
                            } else if (0xDC00..0xE000).contains(&u) {
                                self.lone_surrogate = true;
                                out.push('\u{FFFD}');
                            } else {
                                out.push(char::from_u32(u).unwrap());
                            }
                        }
                        _ => return None,
                    }
                }
                c if (c as u32) < 0x20 => return None,
                c => out.push(c),
            }
        }
    }
}
