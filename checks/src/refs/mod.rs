//! Reference models ("kept boring"): independent of the code under test.
pub mod json;
